import Zeno.Proofs.Extract
import Zeno.Gen.Extractors
/-!
# C19 — structured documents yield all their links; bucket listings are fully walked

Statements only. `E` = facts regenerated from extractor/json.go, xml.go, m3u8.go, s3.go, utils.go, the dispatch in
assets.go and the body-keeping rule of archiver/body.go. The parsers (encoding/json, encoding/xml, grafov/m3u8) are
oracles: the model works on the parsed document (`J`, token list, `Playlist`); `isURL` is the extractor's own URL test.
The S3 service is modelled by its contract: the pages of a listing partition the entries of the folder, in order.
-/
namespace Zeno.Props.C19
open Zeno Zeno.Model.Extract

abbrev E : EF := Zeno.Gen.Extractors.facts

theorem facts_ok :
    (E.extStripsFragmentThenQuery && E.extKeepsAfterLastSlash && E.extNeedsDotNotLast && E.jsonWalksStringsArraysObjects &&
     E.jsonURLOrEmbedded && E.jsonSplitByExtension && E.xmlAttrsWithHTTPPrefix && E.xmlTextPrefixOrRegex && E.xmlSplitByExtension &&
     E.m3u8Segments && E.m3u8VariantsAndAlternatives && okS3 E && E.assetDispatchOrder && E.bodyKeptForPlaylists) = true := by decide

theorem s3_ok : okS3 E = true := by decide

/-- **JSON, any nesting depth**: a string value reached by any path of array / object positions, if it is a URL, is discovered. -/
theorem c19_json_every_url_at_any_depth (o : JOracle) (fuel : Nat) (j : J) (path : List Nat) (s : String)
    (h : j.at path = some (.str s)) (hu : o.isURL s = true) : s ∈ findURLs o fuel j :=
  findURLs_complete o fuel j s (J.at_str_mem j path s h) hu

/-- **JSON embedded in a string**: URLs of a document that sits, serialised, in a string value are discovered too. -/
theorem c19_json_embedded (o : JOracle) (fuel : Nat) (j j' : J) (path : List Nat) (s u : String)
    (h : j.at path = some (.str s)) (hn : o.isURL s = false) (he : o.embedded s = some j') (hu : u ∈ findURLs o fuel j') :
    u ∈ findURLs o (fuel + 1) j :=
  findURLs_embedded o fuel j j' s u (J.at_str_mem j path s h) hn he hu

/-- nothing but URLs is reported -/
theorem c19_json_only_urls (o : JOracle) (fuel : Nat) (j : J) (u : String) (h : u ∈ findURLs o fuel j) : o.isURL u = true :=
  findURLs_sound o fuel j u h

/-- **assets vs outlinks**: every discovered URL lands in exactly one class — asset iff its last path segment (fragment and
query dropped) has a file extension. -/
theorem c19_split (urls : List String) (u : String) (h : u ∈ urls) :
    (hasFileExtension u.toList = true → u ∈ (split urls).assets ∧ u ∉ (split urls).outlinks) ∧
    (hasFileExtension u.toList = false → u ∈ (split urls).outlinks ∧ u ∉ (split urls).assets) := by
  constructor <;> intro hx
  · rw [split_assets, split_outlinks]; simp [h, hx]
  · rw [split_assets, split_outlinks]; simp [h, hx]

theorem c19_extension_ignores_fragment_and_query (s q f : List Char) (h1 : '#' ∉ s) (h2 : '?' ∉ s) (h3 : '#' ∉ q) :
    hasFileExtension (s ++ '?' :: q) = hasFileExtension s ∧ hasFileExtension (s ++ '#' :: f) = hasFileExtension s :=
  ⟨ext_ignores_query s q h1 h2 h3, ext_ignores_fragment s f h1⟩

/-- **XML**: every attribute value and every text node that starts with `http` is discovered, and so is every URL the strict
URL pattern finds inside other text nodes. -/
theorem c19_xml (toks : List XTok) :
    (∀ attrs v, XTok.start attrs ∈ toks → v ∈ attrs → startsHttp v = true → v ∈ xmlURLs toks) ∧
    (∀ t found, XTok.text t found ∈ toks → startsHttp t = true → t ∈ xmlURLs toks) ∧
    (∀ t found u, XTok.text t found ∈ toks → startsHttp t = false → u ∈ found → u ∈ xmlURLs toks) :=
  ⟨fun attrs v ht hv hp => xml_attr_found toks attrs v ht hv hp,
   fun t found ht hp => xml_text_found toks t found t ht (Or.inl ⟨hp, rfl⟩),
   fun t found u ht hp hu => xml_text_found toks t found u ht (Or.inr ⟨hp, hu⟩)⟩

/-- **M3U8**: every segment of a media playlist, every variant and every alternative rendition of a master playlist. -/
theorem c19_m3u8 :
    (∀ segs u, u ∈ segs → u ≠ "" → u ∈ m3u8URIs (.media segs)) ∧
    (∀ vs v, v ∈ vs → (v.uri ≠ "" → v.uri ∈ m3u8URIs (.master vs)) ∧ (∀ a ∈ v.alternatives, a ≠ "" → a ∈ m3u8URIs (.master vs))) :=
  ⟨fun segs u h hne => m3u8_segment_found segs u h hne, fun vs v hv => m3u8_variant_found vs v hv⟩

/-- **Marker-paginated bucket**: following the marker link of every non-empty page queues exactly the objects of non-zero
size, and the walk ends (the fuel, one request per page plus one, is never exhausted). -/
theorem c19_s3_marker_walk (pageSize : Nat) (objs : List Obj) :
    legacyWalk E pageSize (objs.length + 1) objs = keysOf objs :=
  legacyWalk_all E s3_ok pageSize (objs.length + 1) objs (by omega)

/-- **list-type=2 bucket with common prefixes**: every object of non-zero size, in every folder at any depth, is queued —
also from pages that carry common prefixes next to objects. -/
theorem c19_s3_prefix_walk (pageSize : Nat) (order : List Obj → List String → List Entry)
    (hord : ∀ objs names o, o ∈ objs → Entry.obj o ∈ order objs names) (d : Dir) :
    ∀ o ∈ d.allObjects, o.key ∈ d.walk E pageSize order :=
  Dir.walk_complete E s3_ok pageSize order hord d

/-- the shape found in the pinned tree — objects only on pages without common prefixes — loses objects -/
theorem c19_s3_mixed_page_counterexample :
    objectKeys (s3V2 { E with s3V2MixedPages := "prefixesOnly" } { contents := [{ key := "a.txt", size := 3 }], prefixes := ["sub/"] }) = [] := by
  decide

/-- non-vacuity: a nested document with an embedded one; a two-level bucket -/
example :
    let o : JOracle := { isURL := startsHttp, embedded := fun s => if s == "{\"u\":\"http://e.example/x\"}" then some (.obj (.cons (.str "http://e.example/x") .nil)) else none }
    let doc : J := .obj (.cons (.arr (.cons (.str "http://a.example/f.png") (.cons (.obj (.cons (.str "http://b.example/page") .nil)) .nil)))
                    (.cons (.str "{\"u\":\"http://e.example/x\"}") (.cons (.str "no") .nil)))
    (split (findURLs o 2 doc)) = { assets := ["http://a.example/f.png"], outlinks := ["http://b.example/page", "http://e.example/x"] } := by
  decide

end Zeno.Props.C19
