import Zeno.Proofs.LifeDone
/-!
Every stage worker runs `CheckConsistency` on the seed it receives and panics when it fails. Here: along the life of a seed
(Model/Life.lean) the tree handed from stage to stage always passes the check — so, together with Proofs/Life.lean, no worker
panics on a seed's tree at all.
-/
set_option linter.unusedSimpArgs false
set_option linter.unusedVariables false
namespace Zeno.Model.Life
open Zeno Zeno.Model.Item Zeno.Model.Stages

/-- a node's own check only looks at its status, its `via` flag and the number of its children -/
theorem checkNode_congr (F : IF) (p : Option Status) (i i' : Info) (n : Nat) (hs : i'.st = i.st) (hv : i'.via = i.via) :
    checkNode F p i' n = checkNode F p i n := by
  unfold checkNode c1 c2 c3 c4 c5
  rw [hs, hv]

/-- a childless node that is not Fresh passes whenever it passed before with the same `via` flag -/
theorem checkNode_leaf (F : IF) (p : Option Status) (i i' : Info) (hv : i'.via = i.via) (hs : i'.st ≠ .fresh)
    (h : checkNode F p i 0 = none) : checkNode F p i' 0 = none := by
  rw [checkNode_none_iff] at h ⊢
  obtain ⟨h1, _, _, _, _⟩ := h
  refine ⟨by simpa [c1, hv] using h1, by simp [c2], ?_, by simp [c4], by simp [c5]⟩
  simp only [c3, Bool.and_eq_false_iff, beq_eq_false_iff_ne]
  exact Or.inl hs

theorem Forest.length_setNorm (ks : List (String × NormRes)) (f : Forest) : (f.setNorm ks).length = f.length := by
  induction f using Forest.rec (motive_1 := fun _ => True) with
  | node => trivial
  | nil => rfl
  | cons t f _ ih => simp [Forest.setNorm, Forest.length, ih]

theorem Forest.length_setStatuses (l : List String) (s : Status) (rq : Bool) (f : Forest) : (f.setStatuses l s rq).length = f.length := by
  induction f using Forest.rec (motive_1 := fun _ => True) with
  | node => trivial
  | nil => rfl
  | cons t f _ ih => simp [Forest.setStatuses, Forest.length, ih]

theorem Forest.length_archive (srv : String → Option Outcome) (d lvl : Nat) (f : Forest) : (f.archive srv d lvl).length = f.length := by
  induction f using Forest.rec (motive_1 := fun _ => True) with
  | node => trivial
  | nil => rfl
  | cons t f _ ih => simp [Forest.archive, Forest.length, ih]

mutual
theorem Tree.check_setNorm (F : IF) (ks : List (String × NormRes)) (p : Option Status) (t : Tree) :
    (t.setNorm ks).check F p = t.check F p := by
  match t with
  | .node i k =>
    simp only [Tree.setNorm, Tree.check, Forest.length_setNorm]
    have e : ∀ i' : Info, i'.st = i.st → i'.via = i.via → i'.id = i.id →
        (match checkNode F p i' k.length with | some b => some (i'.id, b) | none => (k.setNorm ks).check F i'.st) =
        (match checkNode F p i k.length with | some b => some (i.id, b) | none => k.check F i.st) := by
      intro i' hs hv hid
      rw [checkNode_congr F p i i' _ hs hv, hid, hs, Forest.check_setNorm F ks i.st k]
    cases hl : List.lookup i.id ks with
    | none => exact e i rfl rfl rfl
    | some r => exact e _ rfl rfl rfl
theorem Forest.check_setNorm (F : IF) (ks : List (String × NormRes)) (p : Status) (f : Forest) :
    (f.setNorm ks).check F p = f.check F p := by
  match f with
  | .nil => rfl
  | .cons t f => simp only [Forest.setNorm, Forest.check, Tree.check_setNorm F ks (some p) t, Forest.check_setNorm F ks p f]
end

mutual
/-- statuses written by id: the ids belong to childless frontier nodes only, the new status is not Fresh -/
theorem Tree.check_setStatuses (F : IF) (l : List String) (s : Status) (rq : Bool) (hs : s ≠ .fresh) (r : Nat) (p : Option Status) (t : Tree)
    (hno : ∀ n, n < r → ∀ i ∈ t.atLevel n, l.contains i.id = false) (hleaf : t.atLevel (r + 1) = [])
    (h : t.check F p = none) : (t.setStatuses l s rq).check F p = none := by
  match t, r with
  | .node i k, 0 =>
    have hk : k = .nil := by simp only [Tree.atLevel] at hleaf; exact forest_atLevel_zero_nil k hleaf
    subst hk
    simp only [Tree.check, Forest.length, Forest.check] at h
    split at h
    · cases h
    · rename_i hc
      by_cases hst : l.contains i.id = true
      · simp only [Tree.setStatuses, hst, if_true, Forest.setStatuses, Tree.check, Forest.length, Forest.check]
        rw [checkNode_leaf F p i { i with st := s, req := i.req || rq } rfl hs hc]
      · simp only [Tree.setStatuses, hst, Bool.false_eq_true, if_false, Forest.setStatuses, Tree.check, Forest.length, Forest.check, hc]
  | .node i k, r + 1 =>
    have hi : l.contains i.id = false := hno 0 (by omega) i (by simp [Tree.atLevel])
    simp only [Tree.check] at h
    split at h
    · cases h
    · rename_i hc
      simp only [Tree.setStatuses, hi, Bool.false_eq_true, if_false, Tree.check, Forest.length_setStatuses, hc]
      exact Forest.check_setStatuses F l s rq hs r i.st k (fun n hn j hj => hno (n + 1) (by omega) j (by simpa [Tree.atLevel] using hj))
        (by simpa [Tree.atLevel] using hleaf) h
theorem Forest.check_setStatuses (F : IF) (l : List String) (s : Status) (rq : Bool) (hs : s ≠ .fresh) (r : Nat) (p : Status) (f : Forest)
    (hno : ∀ n, n < r → ∀ i ∈ f.atLevel n, l.contains i.id = false) (hleaf : f.atLevel (r + 1) = [])
    (h : f.check F p = none) : (f.setStatuses l s rq).check F p = none := by
  match f with
  | .nil => rfl
  | .cons t f =>
    simp only [Forest.atLevel, List.append_eq_nil_iff] at hleaf
    simp only [Forest.check] at h
    split at h
    · cases h
    · rename_i ht
      simp only [Forest.setStatuses, Forest.check,
        Tree.check_setStatuses F l s rq hs r (some p) t (fun n hn j hj => hno n hn j (by simp [Forest.atLevel, hj])) hleaf.1 ht]
      exact Forest.check_setStatuses F l s rq hs r p f (fun n hn j hj => hno n hn j (by simp [Forest.atLevel, hj])) hleaf.2 h
end

theorem okCheck_with (F : IF) (hc : okCheck F = true) (s : Status)
    (hs : s = .completed ∨ s = .failed ∨ s = .gotChildren ∨ s = .gotRedirected) : F.withChildrenStatuses.contains s.name = true := by
  simp only [okCheck, Bool.and_eq_true, beq_iff_eq] at hc
  rw [hc.1.1.1.2]
  rcases hs with h | h | h | h <;> subst h <;> decide

theorem okCheck_parent (F : IF) (hc : okCheck F = true) (s : Status) (hs : s = .gotChildren ∨ s = .gotRedirected) :
    badParent F (some s) = false := by
  simp only [okCheck, Bool.and_eq_true, beq_iff_eq] at hc
  simp only [badParent, hc.1.1.1.1]
  rcases hs with h | h <;> subst h <;> decide

/-- the seed itself set Completed / Failed while none of its children is Fresh -/
theorem check_setRoot (F : IF) (hc : okCheck F = true) (t : Tree) (s : Status) (hs : s = .completed ∨ s = .failed)
    (hk : ∀ c ∈ t.kids.toList, c.st ≠ .fresh) (h : t.check F none = none) : (setRoot t s).check F none = none := by
  match t, hk, h with
  | .node i k, hk, h =>
    simp only [Tree.kids] at hk
    simp only [Tree.check] at h
    split at h
    · cases h
    · rename_i hcn
      simp only [setRoot, Tree.check]
      have hnode : checkNode F none { i with st := s } k.length = none := by
        rw [checkNode_none_iff] at hcn ⊢
        obtain ⟨h1, _, _, _, _⟩ := hcn
        refine ⟨by simpa [c1] using h1, ?_, ?_, ?_, ?_⟩
        · rcases hs with h' | h' <;> subst h' <;> simp [c2]
        · simp [c3, badParent]
        · rcases hs with h' | h' <;> subst h' <;> simp [c4]
        · simp only [c5, Bool.and_eq_false_iff, Bool.not_eq_false']
          exact Or.inr (okCheck_with F hc s (by rcases hs with h' | h' <;> simp [h']))
      rw [hnode]
      exact Forest.check_parent F i.st s k hk h

mutual
theorem Tree.check_archive (F : IF) (srv : String → Option Outcome) (w lvl r : Nat) (p : Option Status) (t : Tree)
    (hr : lvl + r = w) (hleaf : t.atLevel (r + 1) = []) (h : t.check F p = none) : (t.archive srv w lvl).check F p = none := by
  match t, r with
  | .node i k, 0 =>
    have hk : k = .nil := by simp only [Tree.atLevel] at hleaf; exact forest_atLevel_zero_nil k hleaf
    subst hk
    have hl : (lvl == w) = true := by simp; omega
    simp only [Tree.check, Forest.length, Forest.check] at h
    split at h
    · cases h
    · rename_i hc
      by_cases hpp : (i.st == Status.preProcessed) = true
      · cases hsv : srv i.id with
        | none =>
          simp only [Tree.archive, hl, if_true, hpp, hsv, Tree.check, Forest.length, Forest.check]
          rw [checkNode_leaf F p i { i with st := .failed } rfl (by simp) hc]
        | some o =>
          by_cases hf : o.fail = true
          · simp only [Tree.archive, hl, if_true, hpp, hsv, hf, Tree.check, Forest.length, Forest.check]
            rw [checkNode_leaf F p i { i with st := .failed } rfl (by simp) hc]
          · simp only [Tree.archive, hl, if_true, hpp, hsv, hf, Bool.false_eq_true, if_false, Tree.check, Forest.length, Forest.check]
            rw [checkNode_leaf F p i { i with st := .archived, resp := o.status, loc := o.loc, html := o.html, body := o.body } rfl (by simp) hc]
      · simp only [Tree.archive, hl, if_true, hpp, Bool.false_eq_true, if_false, Tree.check, Forest.length, Forest.check, hc]
  | .node i k, r + 1 =>
    have hl : (lvl == w) = false := by simp; omega
    simp only [Tree.check] at h
    split at h
    · cases h
    · rename_i hc
      simp only [Tree.archive, hl, Bool.false_eq_true, if_false, Tree.check, Forest.length_archive, hc]
      exact Forest.check_archive F srv w (lvl + 1) r i.st k (by omega) (by simpa [Tree.atLevel] using hleaf) h
theorem Forest.check_archive (F : IF) (srv : String → Option Outcome) (w lvl r : Nat) (p : Status) (f : Forest)
    (hr : lvl + r = w) (hleaf : f.atLevel (r + 1) = []) (h : f.check F p = none) : (f.archive srv w lvl).check F p = none := by
  match f with
  | .nil => rfl
  | .cons t f =>
    simp only [Forest.atLevel, List.append_eq_nil_iff] at hleaf
    simp only [Forest.check] at h
    split at h
    · cases h
    · rename_i ht
      simp only [Forest.archive, Forest.check, Tree.check_archive F srv w lvl r (some p) t hr hleaf.1 ht]
      exact Forest.check_archive F srv w lvl r p f hr hleaf.2 h
end


/-! ### postprocess -/

theorem redirect_child_via (S : SF) (cfg : Cfg) (ex : String → Extract) (i : Info) (dnr : Int) (c : Info)
    (h : postAct S cfg ex i dnr = .redirect c) : c.via = false := by
  unfold postAct at h
  split at h
  · split at h
    · cases h
    · cases h; rfl
  · split at h
    · cases h
    · split at h
      · cases h
      · split at h
        · cases h
        · split at h <;> cases h

theorem extract_kids_via (S : SF) (cfg : Cfg) (ex : String → Extract) (i : Info) (dnr : Int) (kids : List Info) (outs : List Outlink)
    (h : postAct S cfg ex i dnr = .extract kids outs) : ∀ c ∈ kids, c.via = false := by
  unfold postAct at h
  split at h
  · split at h <;> cases h
  · split at h
    · cases h
    · split at h
      · cases h
      · split at h
        · cases h
        · split at h
          · cases h
            intro c hc
            split at hc
            · simp only [List.mem_map, List.mem_filter] at hc
              obtain ⟨a, _, rfl⟩ := hc
              rfl
            · cases hc
          · cases h
            intro c hc; cases hc

theorem leaves_length (kids : List Info) : (leaves kids).length = kids.length := by
  induction kids with
  | nil => rfl
  | cons c cs ih => simp [leaves, Forest.length, ih]

theorem leaves_check (F : IF) (hc : okCheck F = true) (p : Status) (hp : p = .gotChildren ∨ p = .gotRedirected) (kids : List Info)
    (hk : ∀ c ∈ kids, c.st = .fresh ∧ c.via = false) : (leaves kids).check F p = none := by
  induction kids with
  | nil => rfl
  | cons c cs ih =>
    obtain ⟨hf, hv⟩ := hk c (by simp)
    have hn : checkNode F (some p) c 0 = none := by
      rw [checkNode_none_iff]
      refine ⟨by simp [c1, hv], by simp [c2], ?_, by simp [c4], by simp [c5]⟩
      simp [c3, okCheck_parent F hc p hp]
    simp only [leaves, Forest.check, Tree.check, Forest.length, hn]
    exact ih (fun c' hc' => hk c' (by simp [hc']))

theorem Forest.length_post (S : SF) (cfg : Cfg) (ex : String → Extract) (d lvl : Nat) (pdnr : Int) (f : Forest) :
    (f.post S cfg ex d lvl pdnr).1.length = f.length := by
  induction f using Forest.rec (motive_1 := fun _ => True) with
  | node => trivial
  | nil => rfl
  | cons t f _ ih => simp [Forest.post, Forest.length, ih]

mutual
theorem Tree.check_post (F : IF) (hc : okCheck F = true) (S : SF) (hS : okPost S = true) (cfg : Cfg) (ex : String → Extract)
    (d lvl r : Nat) (pdnr : Int) (isSeed : Bool) (p : Option Status) (t : Tree) (hr : lvl + r = d) (hleaf : t.atLevel (r + 1) = [])
    (h : t.check F p = none) : (t.post S cfg ex d lvl pdnr isSeed).1.check F p = none := by
  match t, r with
  | .node i k, 0 =>
    have hk : k = .nil := by simp only [Tree.atLevel] at hleaf; exact forest_atLevel_zero_nil k hleaf
    subst hk
    have hl : (lvl == d) = true := by simp; omega
    simp only [Tree.check, Forest.length, Forest.check] at h
    split at h
    · cases h
    · rename_i hcn
      have hc1 : c1 p i = false := ((checkNode_none_iff F p i 0).1 hcn).1
      unfold Tree.post
      simp only [hl, if_true]
      split
      · rename_i harch
        show ((match postAct S cfg ex i (nodeDnr isSeed i.st pdnr) with
            | PostAct.complete => _ | PostAct.redirect c => _ | PostAct.extract kids outs => _ : Tree × List Outlink).1).check F p = none
        split
        · simp only [Tree.check, Forest.length, Forest.check]
          rw [checkNode_leaf F p i { i with st := .completed, body := false } rfl (by simp) hcn]
        · rename_i c hcr
          obtain ⟨_, _, _, _, hfresh⟩ := redirect_child S hS cfg ex i _ c hcr
          have hvia := redirect_child_via S cfg ex i _ c hcr
          have hnode : checkNode F p { i with st := .gotRedirected, body := false } 1 = none := by
            rw [checkNode_none_iff]
            refine ⟨by simpa [c1] using hc1, by simp [c2], by simp [c3], by simp [c4], ?_⟩
            have hw := okCheck_with F hc .gotRedirected (by simp)
            simp only [c5, Bool.and_eq_false_iff, Bool.not_eq_false']
            exact Or.inr hw
          simp only [Forest.append, Tree.check, Forest.length, hnode]
          exact leaves_check F hc .gotRedirected (Or.inr rfl) [c] (by intro c' hc'; simp at hc'; subst hc'; exact ⟨hfresh, hvia⟩)
        · rename_i kids outs hce
          obtain ⟨hkids, _⟩ := extraction_hops S hS cfg ex i _ kids outs hce
          have hvia := extract_kids_via S cfg ex i _ kids outs hce
          rw [foldl_append_leaves]
          simp only [Forest.append]
          cases kids with
          | nil =>
            simp only [leaves, Tree.check, Forest.length, Forest.check, List.isEmpty_nil, Bool.true_and, beq_self_eq_true, if_true]
            rw [checkNode_leaf F p i { i with st := .completed, body := false } rfl (by simp) hcn]
          | cons c cs =>
            have hnode : checkNode F p { i with st := .gotChildren, body := false } (c :: cs).length = none := by
              rw [checkNode_none_iff]
              refine ⟨by simpa [c1] using hc1, by simp [c2], by simp [c3], by simp [c4], ?_⟩
              have hw := okCheck_with F hc .gotChildren (by simp)
              simp only [c5, Bool.and_eq_false_iff, Bool.not_eq_false']
              exact Or.inr hw
            simp only [Tree.check, leaves_length, List.isEmpty_cons, Bool.false_and, Bool.false_eq_true, if_false, hnode]
            exact leaves_check F hc .gotChildren (Or.inl rfl) (c :: cs) (fun c' hc' => ⟨(hkids c' hc').2.2, hvia c' hc'⟩)
      · simp only [Tree.check, Forest.length, Forest.check]
        rw [checkNode_congr F p i { i with body := false } 0 rfl rfl, hcn]
  | .node i k, r + 1 =>
    have hl : (lvl == d) = false := by simp; omega
    simp only [Tree.check] at h
    split at h
    · cases h
    · rename_i hcn
      unfold Tree.post
      simp only [hl, Bool.false_eq_true, if_false]
      have hk := Forest.check_post F hc S hS cfg ex d (lvl + 1) r (nodeDnr isSeed i.st pdnr) i.st k (by omega)
        (by simpa [Tree.atLevel] using hleaf) h
      have hlen := Forest.length_post S cfg ex d (lvl + 1) (nodeDnr isSeed i.st pdnr) k
      show (match Forest.post S cfg ex d (lvl + 1) (nodeDnr isSeed i.st pdnr) k with
        | (k', outs) => ((Tree.node { i with body := false } k', outs) : Tree × List Outlink)).1.check F p = none
      cases hp : Forest.post S cfg ex d (lvl + 1) (nodeDnr isSeed i.st pdnr) k with
      | mk k' outs =>
        rw [hp] at hk hlen
        simp only at hk hlen
        simp only [Tree.check, hlen]
        rw [checkNode_congr F p i { i with body := false } k.length rfl rfl, hcn]
        exact hk
theorem Forest.check_post (F : IF) (hc : okCheck F = true) (S : SF) (hS : okPost S = true) (cfg : Cfg) (ex : String → Extract)
    (d lvl r : Nat) (pdnr : Int) (p : Status) (f : Forest) (hr : lvl + r = d) (hleaf : f.atLevel (r + 1) = [])
    (h : f.check F p = none) : (f.post S cfg ex d lvl pdnr).1.check F p = none := by
  match f with
  | .nil => simp [Forest.post, Forest.check]
  | .cons t f =>
    simp only [Forest.atLevel, List.append_eq_nil_iff] at hleaf
    simp only [Forest.check] at h
    split at h
    · cases h
    · rename_i ht
      simp only [Forest.post, Forest.check, Tree.check_post F hc S hS cfg ex d lvl r pdnr false (some p) t hr hleaf.1 ht]
      exact Forest.check_post F hc S hS cfg ex d lvl r pdnr p f hr hleaf.2 h
end


/-! ### the whole pass -/

theorem kids_in_level_one (t : Tree) : ∀ c ∈ t.kids.toList, c.info ∈ t.atLevel 1 := by
  match t with
  | .node i k =>
    simp only [Tree.kids, Tree.atLevel]
    induction k using Forest.rec (motive_1 := fun _ => True) with
    | node => trivial
    | nil => intro c hc; simp [Forest.toList] at hc
    | cons t' f _ ih =>
      intro c hc
      simp only [Forest.toList, List.mem_cons] at hc
      simp only [Forest.atLevel, List.mem_append]
      rcases hc with rfl | hc
      · left; rw [Tree.atLevel_zero]; simp
      · right; exact ih c hc

/-- no Fresh node on the working level ⇒ no Fresh child of the seed (all pending nodes sit on the working level) -/
theorem kids_not_fresh {R d : Nat} {P : Status → Prop} {t : Tree} (h : Mid R d P t) (hl : ∀ i ∈ t.atLevel d, i.st ≠ .fresh) :
    ∀ c ∈ t.kids.toList, c.st ≠ .fresh := by
  intro c hc hf
  have hm := kids_in_level_one t c hc
  have hp : c.info.st.pending = true := by
    have : c.info.st = .fresh := hf
    rw [this]; rfl
  have := h.pend 1 c.info hm hp
  subst this
  exact hl c.info hm hf

theorem finalStep_check (F : IF) (hc : okCheck F = true) {R d : Nat} {t2 : Tree} (sr : Seen × List String) (h : MidW R d (· = .fresh) t2)
    (hsr : ∀ x ∈ sr.2, ∃ i ∈ t2.atLevel d, i.id = x) (hk : t2.check F none = none) :
    let c := finalStep t2 sr d
    (if c.2.2.1.isEmpty then c.1 else c.1.setStatuses c.2.2.1 .preProcessed true).check F none = none := by
  have h3 := mid_seen sr.2 h.1
  have hk3 : (t2.setStatuses sr.2 .seen false).check F none = none :=
    Tree.check_setStatuses F sr.2 .seen false (by simp) d none t2 (ids_not_above h.1 sr.2 hsr) h.1.top hk
  unfold finalStep
  simp only
  split
  · rename_i hemp
    simp only [List.isEmpty_nil, if_true]
    refine check_setRoot F hc _ .completed (Or.inl rfl) (kids_not_fresh h3 ?_) hk3
    intro i hi hf
    have : i ∈ ((t2.setStatuses sr.2 .seen false).atLevel d).filter (fun i => i.st == .fresh) := by
      simp [List.mem_filter, hi, hf]
    simp only [List.isEmpty_iff] at hemp
    rw [hemp] at this; cases this
  · rename_i hne
    have hne' : ((((t2.setStatuses sr.2 .seen false).atLevel d).filter (fun i => i.st == .fresh)).map (·.id)).isEmpty = false := by
      simpa using hne
    simp only [hne', Bool.false_eq_true, if_false]
    refine Tree.check_setStatuses F _ .preProcessed true (by simp) d none _ (ids_not_above h3 _ ?_) h3.top hk3
    intro x hx
    simp only [List.mem_map, List.mem_filter] at hx
    obtain ⟨i, ⟨hi, _⟩, rfl⟩ := hx
    exact ⟨i, hi, rfl⟩

theorem preTail_check (F : IF) (hc : okCheck F = true) {R d : Nat} (S : SF) (hg : (S.preSeencheckGuard == "always") = false) (cfg : Cfg)
    (seen : Seen) {t2 : Tree} (h : MidW R d (· = .fresh) t2) (hk : t2.check F none = none) :
    let c := preTail S cfg seen t2 d
    (if c.2.2.1.isEmpty then c.1 else c.1.setStatuses c.2.2.1 .preProcessed true).check F none = none := by
  unfold preTail
  simp only
  split
  · rename_i hemp
    simp only [List.isEmpty_nil, if_true]
    refine check_setRoot F hc _ .completed (Or.inl rfl) (kids_not_fresh h.1 ?_) hk
    intro i hi
    simp only [List.isEmpty_iff] at hemp
    rw [hemp] at hi; cases hi
  · split
    · refine finalStep_check F hc _ h ?_ hk
      intro x hx
      unfold hqSeencheck at hx
      split at hx
      · cases hx
      · simp only [List.mem_map, List.mem_filter] at hx
        obtain ⟨i, ⟨hi, _⟩, rfl⟩ := hx
        exact ⟨i, hi, rfl⟩
    · simp only [hg, Bool.false_or]
      split
      · rename_i hcr
        simp at hcr
      · refine finalStep_check F hc _ h ?_ hk
        intro x hx
        split at hx
        · rw [seencheck_eq] at hx
          rcases seencheck_ids t2 _ _ x hx with h' | h'
          · cases h'
          · exact h'
        · cases hx

/-- **preprocess hands on a consistent tree** -/
theorem pre_check (S : SF) (I : IF) (hI : okSets I = true) (hc : okCheck I = true) (hg : (S.preSeencheckGuard == "always") = false) (cfg : Cfg)
    (norm : String → Option NormRes) (seen : Seen) {R d : Nat} {t : Tree} (h : Start R d t) (hw : t.wp d = true)
    (hk : t.check I none = none) : (preprocess S I cfg norm seen t).1.check I none = none := by
  have hm : MidW R d (· = .fresh) t := ⟨h.toMid, hw⟩
  have h1 := midW_setNorm_prune (scan cfg norm t (t.atLevel d)).2.1 (scan cfg norm t (t.atLevel d)).1 hm
  have hk1 : ((t.setNorm (scan cfg norm t (t.atLevel d)).2.1).prune (scan cfg norm t (t.atLevel d)).1).check I none = none :=
    Tree.check_prune I _ none _ (by rw [Tree.check_setNorm]; exact hk)
  unfold preprocess preCore
  simp only [h.depth]
  have hstop : ∀ st, st = Status.completed ∨ st = Status.failed → d = 0 →
      (setRoot ((t.setNorm (scan cfg norm t (t.atLevel d)).2.1).prune (scan cfg norm t (t.atLevel d)).1) st).check I none = none := by
    intro st hst hd0
    refine check_setRoot I hc _ st hst ?_ hk1
    intro c hcm
    have := kids_in_level_one _ c hcm
    subst hd0
    rw [h1.1.top] at this; cases this
  cases d with
  | zero =>
    rcases scan_flag cfg norm t (t.atLevel 0) h.fresh with hf | hf | hf
    · simp only [hf]
      exact preTail_check I hc S hg cfg seen (midW_dedupe I hI h1) (dedupe_consistent I hI hc _ hk1)
    · simp only [hf, List.isEmpty_nil, if_true]
      exact hstop .failed (Or.inr rfl) rfl
    · simp only [hf, List.isEmpty_nil, if_true]
      exact hstop .completed (Or.inl rfl) rfl
  | succ d' =>
    have hf : (scan cfg norm t (t.atLevel (d' + 1))).2.2 = none :=
      scan_flag_none cfg norm t _ (fun i hi => ⟨h.fresh i hi, Tree.parentStatus_par t h.ids d' hw i hi⟩)
    simp only [hf]
    exact preTail_check I hc S hg cfg seen (midW_dedupe I hI h1) (dedupe_consistent I hI hc _ hk1)

/-- **No worker's consistency check fails**: along one pass the tree every stage receives passes `CheckConsistency` -/
theorem pass_consistent (S : SF) (hS : okPost S = true) (hg : (S.preSeencheckGuard == "always") = false) (I : IF) (hI : okSets I = true)
    (hc : okCheck I = true) (cfg : Cfg) (o : Oracle) (seen : Seen) {R d : Nat} {t : Tree} (h : Start R d t) (hw : t.wp d = true)
    (hk : t.check I none = none) :
    let p := preprocess S I cfg o.norm seen t
    let a := archive o.srv p.1
    let q := postprocess S cfg o.ex a
    p.1.check I none = none ∧ a.check I none = none ∧ q.1.check I none = none ∧ (pass S I cfg o seen t).tree.check I none = none := by
  have hp := pre_check S I hI hc hg cfg o.norm seen h hw hk
  have ha : (archive o.srv (preprocess S I cfg o.norm seen t).1).check I none = none := by
    unfold archive
    exact Tree.check_archive I o.srv _ 0 (preprocess S I cfg o.norm seen t).1.maxDepth none _ (by omega) (atLevel_above_nil _ _ (by omega)) hp
  have hq : (postprocess S cfg o.ex (archive o.srv (preprocess S I cfg o.norm seen t).1)).1.check I none = none := by
    unfold postprocess
    exact Tree.check_post I hc S hS cfg o.ex _ 0 (archive o.srv (preprocess S I cfg o.norm seen t).1).maxDepth 0 true none _ (by omega) (atLevel_above_nil _ _ (by omega)) ha
  refine ⟨hp, ha, hq, ?_⟩
  simp only [pass, finisher]
  split
  · exact hq
  · exact complete_consistent I hI hc _ hq

/-- … and along a whole life: every tree with which a pass starts, and the tree with which the seed finally leaves, is consistent -/
theorem life_consistent (S : SF) (hS : okPost S = true) (hg : (S.preSeencheckGuard == "always") = false) (I : IF) (hI : okSets I = true)
    (hc : okCheck I = true) (cfg : Cfg) (hdc : cfg.domainsCrawl = false) (os : List Oracle) :
    ∀ (seen : Seen) (d : Nat) (t : Tree), Start cfg.maxRedirect d t → t.wp d = true → t.check I none = none →
      idsOK S I cfg os seen t = true → ∀ t', (life S I cfg os seen t).2 = some t' → t'.check I none = none := by
  induction os with
  | nil => intro seen d t _ _ _ _ t' ht'; simp [life] at ht'
  | cons o os ih =>
    intro seen d t h hw hk hids t' ht'
    simp only [idsOK, Bool.and_eq_true, Bool.or_eq_true, Bool.not_eq_true'] at hids
    have hcons := (pass_consistent S hS hg I hI hc cfg o seen h hw hk).2.2.2
    have hprog := pass_progressW S hS hg I hI cfg hdc o seen h hw hids.1
    simp only [life] at ht'
    rcases hprog with ⟨hf, _⟩ | ⟨hf, hst, hw'⟩
    · simp only [hf] at ht'
      have : (pass S I cfg o seen t).tree = t' := by simpa using ht'
      rw [← this]; exact hcons
    · simp only [hf, beq_self_eq_true, if_true] at ht'
      have hids' : idsOK S I cfg os (pass S I cfg o seen t).seen (pass S I cfg o seen t).tree = true := by
        rcases hids.2 with h' | h'
        · rw [hf] at h'; cases h'
        · exact h'
      exact ih _ (d + 1) _ hst hw' hcons hids' t' ht'

end Zeno.Model.Life
