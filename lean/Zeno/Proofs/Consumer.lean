import Zeno.Model.Consumer
namespace Zeno.Model.Consumer
open Zeno

def okConsumer (F : Facts) : Bool :=
  F.lqDiscardFlagScope == "perURL" && F.lqUnparsableGoesToFinish && F.lqParsableGoesToReactor && F.lqConsumeFields

/-- with a per-URL flag the fate of a URL depends on that URL alone -/
theorem consume_eq (F : Facts) (hF : okConsumer F = true) (flag : Bool) (urls : List Claimed) :
    consume F flag urls = urls.map (fun u => (u.id, if u.parsable then Fate.inserted else Fate.finishedUnfetched)) := by
  simp only [okConsumer, Bool.and_eq_true, beq_iff_eq] at hF
  induction urls generalizing flag with
  | nil => rfl
  | cons u rest ih =>
    simp only [consume, hF.1.1.1, hF.1.1.2, hF.1.2, beq_self_eq_true, if_true, Bool.false_or, Bool.and_true, List.map_cons, ih]
    cases u.parsable <;> simp

end Zeno.Model.Consumer
