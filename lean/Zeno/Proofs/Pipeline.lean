import Zeno.Model.Pipeline
import Zeno.Proofs.Item
namespace Zeno.Model.Pipeline
open Zeno Zeno.Model.Item Zeno.Model.Stages

def okFin (P : PF) : Bool :=
  P.finFreshGoesToProduce && P.finIncompleteGoesToFeedback && P.finCompleteMarksThenNotifies && P.finNotifyUnconditional &&
  P.finOneExitPerSeed && P.stagesWiredInOrder && P.sourceGetsFinisherChans && P.preForwardsEverySeedOnce &&
  P.archForwardsEverySeedOnce && P.postForwardsEverySeedOnce

theorem okFin_fields {P : PF} (h : okFin P = true) :
    P.finFreshGoesToProduce = true ∧ P.finIncompleteGoesToFeedback = true ∧ P.finCompleteMarksThenNotifies = true ∧
    P.finNotifyUnconditional = true := by
  simp only [okFin, Bool.and_eq_true] at h
  obtain ⟨⟨⟨⟨⟨⟨⟨⟨⟨h1, h2⟩, h3⟩, h4⟩, _⟩, _⟩, _⟩, _⟩, _⟩, _⟩ := h
  exact ⟨h1, h2, h3, h4⟩

/-- every tree entering the system, or handed on by a stage, has the closure shape the stages maintain
(a node without work has no descendant with work: C11's `c11_complete_keeps_shape`) -/
def Shaped (I : IF) : Ev → Prop
  | .accept _ t => t.nwc I = true
  | .advance _ t => t.nwc I = true
  | .finish _ => True
  | .freeze => True

/-- how often an id was reported back to the queue (acknowledged as finished, or produced as a new URL) -/
def reported (s : State) (x : String) : Nat := (s.acks.map Prod.fst).count x + s.produced.count x

/-- how often an id was left in the frozen reactor's state table for the source to hand back to the queue -/
def handedBack (s : State) (x : String) : Nat := s.parked.count x

structure Inv (I : IF) (s : State) : Prop where
  nodup : (ids s).Nodup
  conserve : ∀ x, s.accepted.count x = (ids s).count x + reported s x + handedBack s x
  done : ∀ a ∈ s.acks, a.2.anyPending = false
  shape : ∀ it ∈ s.items, it.tree.nwc I = true

theorem count_ids_filter (l : List Item) (id x : String) :
    ((l.filter (fun y => !(y.id == id))).map (·.id)).count x = if x = id then 0 else (l.map (·.id)).count x := by
  induction l with
  | nil => simp
  | cons a as ih =>
    by_cases ha : a.id = id
    · simp only [List.filter_cons, ha, beq_self_eq_true, Bool.not_true, Bool.false_eq_true, if_false, List.map_cons, ih]
      by_cases hx : x = id
      · simp [hx]
      · simp only [hx, if_false]
        rw [List.count_cons]
        have : (id == x) = false := by simpa using (fun h => hx h.symm)
        simp [this]
    · have hb : (!(a.id == id)) = true := by simpa using ha
      simp only [List.filter_cons, hb, if_true, List.map_cons, List.count_cons, ih]
      by_cases hx : x = id
      · have : (a.id == x) = false := by simpa [hx] using ha
        simp [hx, ha]
      · simp [hx]

theorem nodup_filter_ids (l : List Item) (id : String) (h : (l.map (·.id)).Nodup) :
    ((l.filter (fun y => !(y.id == id))).map (·.id)).Nodup := by
  induction l with
  | nil => simp
  | cons a as ih =>
    simp only [List.map_cons, List.nodup_cons] at h
    simp only [List.filter_cons]
    split
    · simp only [List.map_cons, List.nodup_cons]
      refine ⟨?_, ih h.2⟩
      intro hm
      simp only [List.mem_map, List.mem_filter] at hm
      obtain ⟨b, ⟨hb, _⟩, hid⟩ := hm
      exact h.1 (List.mem_map.2 ⟨b, hb, hid⟩)
    · exact ih h.2

theorem ids_advance (l : List Item) (id : String) (t' : Tree) :
    (l.map (fun it => if it.id == id && it.place != .fin then { it with place := it.place.next, tree := t' } else it)).map (·.id) = l.map (·.id) := by
  induction l with
  | nil => rfl
  | cons a as ih =>
    simp only [List.map_cons, ih]
    split <;> rfl

/-- the finisher acknowledges a seed only when completion marking found nothing pending -/
theorem finisher_finish_done (I : IF) (hI : okSets I = true) (t t' : Tree) (hw : t.nwc I = true)
    (h : finisher I t = (t', .finish)) : t'.anyPending = false := by
  unfold finisher at h
  split at h
  · cases h
  · simp only [Prod.mk.injEq] at h
    obtain ⟨h1, h2⟩ := h
    split at h2
    · rename_i hd
      rw [← h1]
      exact (complete_iff I hI t hw).1 hd
    · cases h2

theorem finisher_keeps_shape (I : IF) (hI : okSets I = true) (t : Tree) (hw : t.nwc I = true) : (finisher I t).1.nwc I = true := by
  unfold finisher
  split
  · exact hw
  · exact complete_nwc I hI t hw

theorem inv_step (P : PF) (I : IF) (hP : okFin P = true) (hI : okSets I = true) (s : State) (e : Ev) (hs : Inv I s) (he : Shaped I e) :
    Inv I (step P I s e) := by
  obtain ⟨p1, p2, p3, p4⟩ := okFin_fields hP
  cases e with
  | accept id t =>
    simp only [step]
    split
    · exact hs
    · rename_i hc
      have hc' : id ∉ ids s := by
        simp only [Bool.or_eq_true, List.contains_eq_mem, decide_eq_true_eq, not_or] at hc
        exact hc.1
      refine ⟨?_, ?_, hs.done, ?_⟩
      · simp only [ids, List.map_cons]; exact List.nodup_cons.2 ⟨hc', hs.nodup⟩
      · intro x
        have := hs.conserve x
        simp only [ids, List.map_cons, List.count_cons, reported, handedBack] at this ⊢
        omega
      · intro it hit
        simp only [List.mem_cons] at hit
        rcases hit with rfl | hit
        · exact he
        · exact hs.shape it hit
  | advance id t' =>
    simp only [step]
    refine ⟨?_, ?_, hs.done, ?_⟩
    · simp only [ids, ids_advance]; exact hs.nodup
    · intro x
      have := hs.conserve x
      simp only [ids, ids_advance, reported, handedBack] at this ⊢
      exact this
    · intro it hit
      simp only [List.mem_map] at hit
      obtain ⟨a, ha, rfl⟩ := hit
      split
      · exact he
      · exact hs.shape a ha
  | freeze =>
    simp only [step]
    exact ⟨hs.nodup, hs.conserve, hs.done, hs.shape⟩
  | finish id =>
    simp only [step]
    split
    · exact hs
    · rename_i it hfind
      have hmem : it ∈ s.items := List.mem_of_find?_eq_some hfind
      have hid : it.id = id := by
        have := List.find?_some hfind
        simp only [Bool.and_eq_true, beq_iff_eq] at this
        exact this.1
      have hcount : (ids s).count id = 1 := by
        rw [hs.nodup.count]
        simp only [ids, List.mem_map]
        rw [if_pos ⟨it, hmem, hid⟩]
      have hw := hs.shape it hmem
      have hrest := count_ids_filter s.items id
      have hnd := nodup_filter_ids s.items id hs.nodup
      have hshape : ∀ x ∈ s.items.filter (fun y => !(y.id == id)), x.tree.nwc I = true :=
        fun x hx => hs.shape x (List.mem_filter.1 hx).1
      unfold finStep
      cases hf : finisher I it.tree with
      | mk t' act =>
        cases act with
        | produce =>
          simp only [p1, if_true]
          refine ⟨hnd, ?_, hs.done, hshape⟩
          intro x
          have := hs.conserve x
          simp only [ids, reported, handedBack, List.count_cons, hrest x] at this ⊢
          by_cases hx : x = id
          · subst hx
            simp only [ids] at hcount
            simp [hid] at this ⊢
            omega
          · have : (it.id == x) = false := by simpa [hid] using (fun h => hx h.symm)
            simp_all
        | feedback =>
          simp only [p2, if_true]
          by_cases hfz : s.frozen = true
          · simp only [hfz, if_true]
            refine ⟨hnd, ?_, hs.done, hshape⟩
            intro x
            have := hs.conserve x
            simp only [ids, reported, handedBack, List.count_cons, hrest x] at this ⊢
            by_cases hx : x = id
            · subst hx
              simp only [ids] at hcount
              simp [hid] at this ⊢
              omega
            · have : (it.id == x) = false := by simpa [hid] using (fun h => hx h.symm)
              simp_all
          · have hfz' : s.frozen = false := by simpa using hfz
            simp only [hfz', Bool.false_eq_true, if_false]
            refine ⟨?_, ?_, hs.done, ?_⟩
            · simp only [ids, List.map_cons, List.nodup_cons]
              refine ⟨?_, hnd⟩
              intro hm
              have := hrest it.id
              simp only [hid, if_true] at this
              rw [hid] at hm
              exact absurd (List.count_pos_iff.2 hm) (by omega)
            · intro x
              have := hs.conserve x
              simp only [ids, reported, handedBack, List.map_cons, List.count_cons, hrest x] at this ⊢
              by_cases hx : x = id
              · subst hx
                simp only [ids] at hcount
                simp [hid] at this ⊢
                omega
              · have : (it.id == x) = false := by simpa [hid] using (fun h => hx h.symm)
                simp_all
            · intro x hx
              simp only [List.mem_cons] at hx
              rcases hx with rfl | hx
              · have := finisher_keeps_shape I hI it.tree hw
                rw [hf] at this
                exact this
              · exact hshape x hx
        | finish =>
          simp only [p3, p4, Bool.and_self, if_true]
          refine ⟨hnd, ?_, ?_, hshape⟩
          · intro x
            have := hs.conserve x
            simp only [ids, reported, handedBack, List.map_cons, List.count_cons, hrest x] at this ⊢
            by_cases hx : x = id
            · subst hx
              simp only [ids] at hcount
              simp [hid] at this ⊢
              omega
            · have : (it.id == x) = false := by simpa [hid] using (fun h => hx h.symm)
              simp_all
          · intro a ha
            simp only [List.mem_cons] at ha
            rcases ha with rfl | ha
            · exact finisher_finish_done I hI it.tree t' hw hf
            · exact hs.done a ha

/-- a seed the finisher finds complete is acknowledged to the queue, by its id, at that very step -/
theorem finish_acks (P : PF) (I : IF) (hP : okFin P = true) (s : State) (id : String) (it : Item) (t' : Tree)
    (hfind : s.items.find? (fun x => x.id == id && x.place == .fin) = some it) (hf : finisher I it.tree = (t', .finish)) :
    (step P I s (.finish id)).acks = (it.id, t') :: s.acks ∧ id ∉ ids (step P I s (.finish id)) := by
  obtain ⟨_, _, p3, p4⟩ := okFin_fields hP
  simp only [step, hfind, finStep, hf, p3, p4, Bool.and_self, if_true, true_and]
  intro hm
  simp only [ids, List.mem_map, List.mem_filter, Bool.not_eq_true', beq_eq_false_iff_ne, ne_eq] at hm
  obtain ⟨x, ⟨_, hne⟩, hx⟩ := hm
  exact hne hx

theorem inv_run (P : PF) (I : IF) (hP : okFin P = true) (hI : okSets I = true) (evs : List Ev) (s : State) (hs : Inv I s)
    (he : ∀ e ∈ evs, Shaped I e) : Inv I (run P I s evs) := by
  induction evs generalizing s with
  | nil => exact hs
  | cons e es ih =>
    simp only [run, List.foldl_cons]
    exact ih _ (inv_step P I hP hI s e hs (he e (by simp))) (fun e' h' => he e' (by simp [h']))

theorem inv_init (I : IF) : Inv I {} :=
  ⟨by simp [ids], (by intro x; simp [ids, reported, handedBack]), (by intro a ha; cases ha), (by intro it hit; cases hit)⟩

end Zeno.Model.Pipeline
