import Zeno.Model.Item
/-! Lemmas about the item tree (core Lean only). -/
set_option linter.unusedSimpArgs false
set_option linter.unnecessarySimpa false
namespace Zeno.Model.Item
open Zeno

/-- the status sets, which is all the completion lemmas need -/
def okSets (F : Facts) : Bool :=
  F.noWorkStatuses == ["Completed", "Seen", "Failed"] && F.markableStatuses == ["GotChildren", "GotRedirected"]

/-- the consistency rules -/
def okCheck (F : Facts) : Bool :=
  F.freshParentStatuses == ["GotChildren", "GotRedirected"] &&
  F.withChildrenStatuses == ["GotChildren", "GotRedirected", "Completed", "Failed"] &&
  F.checkOrder == ["childHasVia", "freshHasChildren", "freshBadParent", "redirectedManyChildren", "childrenBadStatus"] &&
  F.redirectedRule && F.freshRule

/-- de-duplication prefers the processed node -/
def okDedupe (F : Facts) : Bool :=
  F.dedupePrefers == "processed" && F.dedupeSkipsSeed && F.dedupeKeyIsCanonical && F.dedupeMarksCompleted &&
  F.dedupeFlattensFirst

def okShapes (F : Facts) : Bool :=
  F.markBottomUp && F.markNeedsAllChildrenDone && F.allDoneUsesHasWork && F.completeShape && F.addChildShape &&
  F.addChildFrom == ["GotRedirected", "GotChildren"] && F.dnrShape &&
  -- the model treats AddChild / RemoveChild as atomic: the whole body runs under the write lock
  F.removeChildAtomic && F.removeFirstById && F.addChildAtomic

/-- fact values the theorems rest on -/
def ok (F : Facts) : Bool := okSets F && okCheck F && okDedupe F && okShapes F

theorem ok_sets {F : Facts} (h : ok F = true) : okSets F = true := by
  simp only [ok, Bool.and_eq_true] at h; exact h.1.1.1
theorem ok_check {F : Facts} (h : ok F = true) : okCheck F = true := by
  simp only [ok, Bool.and_eq_true] at h; exact h.1.1.2
theorem ok_dedupe {F : Facts} (h : ok F = true) : okDedupe F = true := by
  simp only [ok, Bool.and_eq_true] at h; exact h.1.2

theorem hasWork_eq (F : Facts) (h : okSets F = true) (s : Status) :
    hasWork F s = !(s == .completed || s == .seen || s == .failed) := by
  simp only [okSets, Bool.and_eq_true, beq_iff_eq] at h
  simp only [hasWork, h.1]
  cases s <;> decide

theorem markable_eq (F : Facts) (h : okSets F = true) (s : Status) :
    F.markableStatuses.contains s.name = (s == .gotChildren || s == .gotRedirected) := by
  simp only [okSets, Bool.and_eq_true, beq_iff_eq] at h
  simp only [h.2]
  cases s <;> decide

/-! ### completion -/

mutual
/-- a node without work has no pending descendant -/
def Tree.nwc (F : Facts) : Tree → Bool
  | .node i k => (hasWork F i.st || !k.anyPending) && k.nwc F
def Forest.nwc (F : Facts) : Forest → Bool
  | .nil => true
  | .cons t f => t.nwc F && f.nwc F
end

mutual
theorem Tree.mark_pending (F : Facts) (h : okSets F = true) (t : Tree) : (t.mark F).anyPending = t.anyPending := by
  match t with
  | .node i k =>
    have hk := Forest.mark_pending F h k
    simp only [Tree.mark]
    split
    · rename_i hc
      simp only [Tree.anyPending, hk]
      have hm : (i.st == .gotChildren || i.st == .gotRedirected) = true := by
        rw [← markable_eq F h]; exact (Bool.and_eq_true _ _ ▸ hc).2
      cases hs : i.st <;> simp_all [Status.pending]
    · simp only [Tree.anyPending, hk]
theorem Forest.mark_pending (F : Facts) (h : okSets F = true) (f : Forest) : (f.mark F).anyPending = f.anyPending := by
  match f with
  | .nil => simp [Forest.mark]
  | .cons t f => simp [Forest.mark, Forest.anyPending, Tree.mark_pending F h t, Forest.mark_pending F h f]
end

/-- `allDone` after marking: nothing pending below ⇒ every child ends without work -/
theorem Tree.mark_st_nowork_of_not_pending : True := trivial

mutual
theorem Tree.mark_done (F : Facts) (h : okSets F = true) (t : Tree) (hp : t.anyPending = false) :
    hasWork F (t.mark F).st = false := by
  match t with
  | .node i k =>
    simp only [Tree.anyPending, Bool.or_eq_false_iff] at hp
    have hk := Forest.mark_done F h k hp.2
    simp only [Tree.mark, hk, Bool.true_and]
    rw [markable_eq F h]
    split
    · simp [Tree.st, Tree.info, hasWork_eq F h]
    · rename_i hn
      simp only [Tree.st, Tree.info, hasWork_eq F h]
      have := hp.1
      cases hs : i.st <;> simp_all [Status.pending]
theorem Forest.mark_done (F : Facts) (h : okSets F = true) (f : Forest) (hp : f.anyPending = false) :
    (f.mark F).allDone F = true := by
  match f with
  | .nil => simp [Forest.mark, Forest.allDone]
  | .cons t f =>
    simp only [Forest.anyPending, Bool.or_eq_false_iff] at hp
    simp [Forest.mark, Forest.allDone, Tree.mark_done F h t hp.1, Forest.mark_done F h f hp.2]
end

/-- in a closed forest, children that all have no work have no pending node at all -/
theorem Forest.allDone_not_pending (F : Facts) (h : okSets F = true) (f : Forest) (hw : f.nwc F = true)
    (hd : f.allDone F = true) : f.anyPending = false := by
  match f with
  | .nil => rfl
  | .cons t f =>
    simp only [Forest.nwc, Bool.and_eq_true] at hw
    simp only [Forest.allDone, Bool.and_eq_true, Bool.not_eq_true'] at hd
    have ih := Forest.allDone_not_pending F h f hw.2 hd.2
    match t, hw.1, hd.1 with
    | .node i k, hwt, hdt =>
      simp only [Tree.nwc, Bool.and_eq_true, Bool.or_eq_true, Bool.not_eq_true'] at hwt
      simp only [Tree.st, Tree.info] at hdt
      have hk : k.anyPending = false := by
        rcases hwt.1 with h1 | h1
        · rw [hdt] at h1; cases h1
        · exact h1
      have hi : i.st.pending = false := by
        rw [hasWork_eq F h] at hdt
        cases hs : i.st <;> simp_all [Status.pending]
      simp [Forest.anyPending, Tree.anyPending, hk, hi, ih]

mutual
theorem Tree.mark_nwc (F : Facts) (h : okSets F = true) (t : Tree) (hw : t.nwc F = true) :
    (t.mark F).nwc F = true := by
  match t with
  | .node i k =>
    simp only [Tree.nwc, Bool.and_eq_true] at hw
    have hk := Forest.mark_nwc F h k hw.2
    have hpk := Forest.mark_pending F h k
    simp only [Tree.mark]
    split
    · rename_i hc
      simp only [Tree.nwc, hk, Bool.and_true, hpk]
      -- all children are done after marking: none of them is pending, recursively
      have hall : (k.mark F).allDone F = true := (Bool.and_eq_true _ _ ▸ hc).1
      have := Forest.allDone_not_pending F h (k.mark F) hk hall
      rw [hpk] at this
      simp [this]
    · simp only [Tree.nwc, hk, Bool.and_true, hpk]; exact hw.1
theorem Forest.mark_nwc (F : Facts) (h : okSets F = true) (f : Forest) (hw : f.nwc F = true) :
    (f.mark F).nwc F = true := by
  match f with
  | .nil => simp [Forest.mark, Forest.nwc]
  | .cons t f =>
    simp only [Forest.nwc, Bool.and_eq_true] at hw
    simp [Forest.mark, Forest.nwc, Tree.mark_nwc F h t hw.1, Forest.mark_nwc F h f hw.2]
end

theorem Tree.nowork_not_pending (F : Facts) (h : okSets F = true) (t : Tree) (hw : t.nwc F = true)
    (hn : hasWork F t.st = false) : t.anyPending = false := by
  match t, hw, hn with
  | .node i k, hw, hn =>
    simp only [Tree.nwc, Bool.and_eq_true, Bool.or_eq_true, Bool.not_eq_true'] at hw
    simp only [Tree.st, Tree.info] at hn
    have hk : k.anyPending = false := by
      rcases hw.1 with h1 | h1
      · rw [hn] at h1; cases h1
      · exact h1
    have hi : i.st.pending = false := by
      rw [hasWork_eq F h] at hn
      cases hs : i.st <;> simp_all [Status.pending]
    simp [Tree.anyPending, hk, hi]

/-- `CompleteAndCheck` returns true exactly when no node of the resulting tree is pending. -/
theorem complete_iff (F : Facts) (h : okSets F = true) (t : Tree) (hw : t.nwc F = true) :
    (completeAndCheck F t).2 = true ↔ (completeAndCheck F t).1.anyPending = false := by
  unfold completeAndCheck
  split
  · rename_i hn
    simp only [Bool.not_eq_true'] at hn
    simp [Tree.nowork_not_pending F h t hw hn]
  · simp only [Bool.not_eq_true']
    constructor
    · intro hb
      exact Tree.nowork_not_pending F h _ (Tree.mark_nwc F h t hw) hb
    · intro hp
      rw [Tree.mark_pending F h] at hp
      exact Tree.mark_done F h t hp

/-- marking keeps the closure invariant, so the finisher's tree can go round again -/
theorem complete_nwc (F : Facts) (h : okSets F = true) (t : Tree) (hw : t.nwc F = true) :
    (completeAndCheck F t).1.nwc F = true := by
  unfold completeAndCheck
  split
  · exact hw
  · exact Tree.mark_nwc F h t hw

/-! ### de-duplication -/

/-- `map f` of a duplicate-free list is duplicate-free when `f` is injective on it -/
theorem nodup_map_on {α β} (f : α → β) : (l : List α) → l.Nodup → (∀ x ∈ l, ∀ y ∈ l, f x = f y → x = y) →
    (l.map f).Nodup
  | [], _, _ => List.nodup_nil
  | a :: l, hn, hinj => by
    rw [List.nodup_cons] at hn
    rw [List.map_cons, List.nodup_cons]
    refine ⟨?_, nodup_map_on f l hn.2 (fun x hx y hy => hinj x (List.mem_cons_of_mem _ hx) y (List.mem_cons_of_mem _ hy))⟩
    intro hm
    rw [List.mem_map] at hm
    obtain ⟨b, hb, hfb⟩ := hm
    have := hinj a List.mem_cons_self b (List.mem_cons_of_mem _ hb) hfb.symm
    exact hn.1 (this ▸ hb)

/-- a duplicate-free key list makes the elements duplicate-free -/
theorem nodup_of_map {α β} (f : α → β) : (l : List α) → (l.map f).Nodup → l.Nodup
  | [], _ => List.nodup_nil
  | a :: l, hn => by
    rw [List.map_cons, List.nodup_cons] at hn
    rw [List.nodup_cons]
    exact ⟨fun h => hn.1 (List.mem_map.mpr ⟨a, h, rfl⟩), nodup_of_map f l hn.2⟩

theorem eq_of_id_eq (l : List Info) (hn : (l.map (·.id)).Nodup) (a b : Info) (ha : a ∈ l) (hb : b ∈ l)
    (h : a.id = b.id) : a = b := by
  induction l with
  | nil => cases ha
  | cons x xs ih =>
    rw [List.map_cons, List.nodup_cons] at hn
    rcases List.mem_cons.mp ha with ha | ha <;> rcases List.mem_cons.mp hb with hb | hb
    · rw [ha, hb]
    · exact absurd (List.mem_map.mpr ⟨b, hb, by rw [← h, ha]⟩) hn.1
    · exact absurd (List.mem_map.mpr ⟨a, ha, by rw [h, hb]⟩) hn.1
    · exact ih hn.2 ha hb

def keepP (rm : List String) (i : Info) : Bool := !rm.contains i.id

mutual
theorem Tree.flatten_prune (rm : List String) (t : Tree) (hk : keepP rm t.info = true) :
    (t.prune rm).flatten.Sublist (t.flatten.filter (keepP rm)) := by
  match t, hk with
  | .node i k, hk =>
    simp only [Tree.info] at hk
    simp only [Tree.prune, Tree.flatten, List.filter_cons, hk, if_true]
    exact (Forest.flatten_prune rm k).cons_cons i
theorem Forest.flatten_prune (rm : List String) (f : Forest) :
    (f.prune rm).flatten.Sublist (f.flatten.filter (keepP rm)) := by
  match f with
  | .nil => simp [Forest.prune, Forest.flatten]
  | .cons t f =>
    simp only [Forest.prune, Forest.flatten, List.filter_append]
    split
    · exact (Forest.flatten_prune rm f).trans (List.sublist_append_right _ _)
    · rename_i hc
      simp only [Forest.flatten]
      exact List.Sublist.append (Tree.flatten_prune rm t (by simpa [keepP] using hc)) (Forest.flatten_prune rm f)
end

mutual
theorem Tree.flatten_mark (F : Facts) (t : Tree) :
    (t.mark F).flatten.map (fun i => (i.id, i.url)) = t.flatten.map (fun i => (i.id, i.url)) := by
  match t with
  | .node i k =>
    simp only [Tree.mark]
    split <;> simp [Tree.flatten, Forest.flatten_mark F k]
theorem Forest.flatten_mark (F : Facts) (f : Forest) :
    (f.mark F).flatten.map (fun i => (i.id, i.url)) = f.flatten.map (fun i => (i.id, i.url)) := by
  match f with
  | .nil => simp [Forest.mark, Forest.flatten]
  | .cons t f => simp [Forest.mark, Forest.flatten, Tree.flatten_mark F t, Forest.flatten_mark F f]
end

theorem lookup_cons (s : DState) (r : List String) (u v : String) (n : Info) :
    ({ seen := (v, n) :: s.seen, removed := r } : DState).lookup u = if v == u then some n else s.lookup u := by
  simp only [DState.lookup, List.find?_cons]
  split <;> simp_all

/-- invariant of the loop of `DedupeItems` after the prefix `P` has been visited -/
structure DInv (P : List Info) (s : DState) : Prop where
  holder : ∀ n ∈ P, n.id ∈ s.removed ∨ s.lookup n.url = some n
  sound : ∀ u e, s.lookup u = some e → e ∈ P ∧ e.url = u ∧ e.id ∉ s.removed
  removedIn : ∀ r ∈ s.removed, ∃ n ∈ P, n.id = r
  covered : ∀ n ∈ P, ∃ e, s.lookup n.url = some e

theorem dinv_init : DInv [] { seen := [], removed := [] } :=
  ⟨by simp, by simp [DState.lookup], by simp, by simp⟩

theorem dinv_step (F : Facts) (P : List Info) (n : Info) (s : DState)
    (hn : ((P ++ [n]).map (·.id)).Nodup) (h : DInv P s) : DInv (P ++ [n]) (dedupeStep F s n) := by
  have hnodupP : (P.map (·.id)).Nodup := by
    rw [List.map_append] at hn; exact (List.nodup_append.mp hn).1
  have hfresh : ∀ m ∈ P, m.id ≠ n.id := by
    intro m hm
    rw [List.map_append] at hn
    exact (List.nodup_append.mp hn).2.2 m.id (List.mem_map.mpr ⟨m, hm, rfl⟩) n.id (by simp)
  have hnr : n.id ∉ s.removed := by
    intro hr
    obtain ⟨m, hm, hmid⟩ := h.removedIn _ hr
    exact hfresh m hm hmid
  unfold dedupeStep
  cases hl : s.lookup n.url with
  | none =>
    simp only
    refine ⟨?_, ?_, ?_, ?_⟩
    · intro m hm
      rcases List.mem_append.mp hm with hm | hm
      · rcases h.holder m hm with h1 | h1
        · exact Or.inl h1
        · right
          rw [lookup_cons]
          split
          · rename_i hu
            have : n.url = m.url := by simpa using hu
            rw [this] at hl; rw [hl] at h1; cases h1
          · exact h1
      · have : m = n := by simpa using hm
        subst this
        right; rw [lookup_cons]; simp
    · intro u e he
      rw [lookup_cons] at he
      split at he
      · rename_i hu
        have hu' : n.url = u := by simpa using hu
        cases he
        exact ⟨by simp, hu', hnr⟩
      · obtain ⟨h1, h2, h3⟩ := h.sound u e he
        exact ⟨List.mem_append_left _ h1, h2, h3⟩
    · intro r hr
      obtain ⟨m, hm, hmid⟩ := h.removedIn r hr
      exact ⟨m, List.mem_append_left _ hm, hmid⟩
    · intro m hm
      rw [lookup_cons]
      split
      · exact ⟨n, rfl⟩
      · rcases List.mem_append.mp hm with hm | hm
        · exact h.covered m hm
        · have : m = n := by simpa using hm
          subst this; simp_all
  | some e =>
    obtain ⟨heP, heu, her⟩ := h.sound _ _ hl
    have hen : e.id ≠ n.id := hfresh e heP
    simp only
    split
    · -- the later node replaces the holder, the holder is removed
      refine ⟨?_, ?_, ?_, ?_⟩
      · intro m hm
        rcases List.mem_append.mp hm with hm | hm
        · rcases h.holder m hm with h1 | h1
          · exact Or.inl (List.mem_cons_of_mem _ h1)
          · by_cases hu : n.url = m.url
            · left
              rw [← hu, hl] at h1
              cases h1; exact List.mem_cons_self
            · right
              rw [lookup_cons]
              have : (n.url == m.url) = false := by simpa using hu
              simp [this, h1]
        · have : m = n := by simpa using hm
          subst this
          right; rw [lookup_cons]; simp
      · intro u x hx
        rw [lookup_cons] at hx
        split at hx
        · rename_i hu
          have hu' : n.url = u := by simpa using hu
          cases hx
          refine ⟨by simp, hu', ?_⟩
          intro hc
          rcases List.mem_cons.mp hc with hc | hc
          · exact hen hc.symm
          · exact hnr hc
        · rename_i hu
          obtain ⟨h1, h2, h3⟩ := h.sound u x hx
          refine ⟨List.mem_append_left _ h1, h2, ?_⟩
          intro hc
          rcases List.mem_cons.mp hc with hc | hc
          · have : x = e := eq_of_id_eq P hnodupP x e h1 heP hc
            subst this
            have : n.url = u := by rw [← h2, heu]
            simp [this] at hu
          · exact h3 hc
      · intro r hr
        rcases List.mem_cons.mp hr with hr | hr
        · exact ⟨e, List.mem_append_left _ heP, hr.symm⟩
        · obtain ⟨m, hm, hmid⟩ := h.removedIn r hr
          exact ⟨m, List.mem_append_left _ hm, hmid⟩
      · intro m hm
        rw [lookup_cons]
        split
        · exact ⟨n, rfl⟩
        · rcases List.mem_append.mp hm with hm | hm
          · exact h.covered m hm
          · have : m = n := by simpa using hm
            subst this; simp_all
    · -- the later node is removed
      refine ⟨?_, ?_, ?_, ?_⟩
      · intro m hm
        rcases List.mem_append.mp hm with hm | hm
        · rcases h.holder m hm with h1 | h1
          · exact Or.inl (List.mem_cons_of_mem _ h1)
          · exact Or.inr h1
        · have : m = n := by simpa using hm
          subst this
          left; exact List.mem_cons_self
      · intro u x hx
        obtain ⟨h1, h2, h3⟩ := h.sound u x hx
        refine ⟨List.mem_append_left _ h1, h2, ?_⟩
        intro hc
        rcases List.mem_cons.mp hc with hc | hc
        · exact hfresh x h1 hc
        · exact h3 hc
      · intro r hr
        rcases List.mem_cons.mp hr with hr | hr
        · exact ⟨n, by simp, hr.symm⟩
        · obtain ⟨m, hm, hmid⟩ := h.removedIn r hr
          exact ⟨m, List.mem_append_left _ hm, hmid⟩
      · intro m hm
        rcases List.mem_append.mp hm with hm | hm
        · exact h.covered m hm
        · have : m = n := by simpa using hm
          subst this; exact ⟨e, hl⟩

theorem dinv_fold (F : Facts) (P rest : List Info) (s : DState)
    (hn : ((P ++ rest).map (·.id)).Nodup) (h : DInv P s) : DInv (P ++ rest) (rest.foldl (dedupeStep F) s) := by
  induction rest generalizing P s with
  | nil => simpa using h
  | cons n ns ih =>
    have hstep := dinv_step F P n s (by
      have : (P ++ n :: ns) = (P ++ [n]) ++ ns := by simp
      rw [this, List.map_append] at hn
      exact (List.nodup_append.mp hn).1) h
    have := ih (P ++ [n]) (dedupeStep F s n) (by simpa using hn) hstep
    simpa using this

/-- among the nodes that are not removed, no two share a URL -/
theorem kept_urls_nodup (F : Facts) (nodes : List Info) (hn : (nodes.map (·.id)).Nodup) :
    ((nodes.filter (keepP (dedupeRemoved F nodes))).map (·.url)).Nodup := by
  have hinv := dinv_fold F [] nodes { seen := [], removed := [] } (by simpa using hn) dinv_init
  simp only [List.nil_append] at hinv
  unfold dedupeRemoved
  generalize nodes.foldl (dedupeStep F) { seen := [], removed := [] } = s at hinv
  have hnodes : nodes.Nodup := nodup_of_map _ _ hn
  apply nodup_map_on
  · exact hnodes.sublist List.filter_sublist
  · intro x hx y hy hxy
    simp only [List.mem_filter, keepP, Bool.not_eq_true', List.contains_eq_mem, decide_eq_false_iff_not] at hx hy
    have h1 := (hinv.holder x hx.1).resolve_left hx.2
    have h2 := (hinv.holder y hy.1).resolve_left hy.2
    rw [hxy, h2] at h1
    exact (Option.some.inj h1).symm

/-- at most one processed (non-fresh) node per URL — what de-duplication at every pass maintains -/
def ProcessedUnique (nodes : List Info) : Prop :=
  ∀ a ∈ nodes, ∀ b ∈ nodes, a.st ≠ .fresh → b.st ≠ .fresh → a.url = b.url → a = b

theorem step_removed_fresh (F : Facts) (hF : okDedupe F = true) (P : List Info) (n : Info) (s : DState)
    (h : DInv P s) (hu : ProcessedUnique (P ++ [n])) (hne : ∀ m ∈ P, m.id ≠ n.id) :
    ∀ r ∈ (dedupeStep F s n).removed, r ∈ s.removed ∨ ∃ m ∈ P ++ [n], m.id = r ∧ m.st = .fresh := by
  have hpref : F.dedupePrefers = "processed" := by
    simp only [okDedupe, Bool.and_eq_true, beq_iff_eq] at hF; exact hF.1.1.1.1
  intro r hr
  unfold dedupeStep at hr
  cases hl : s.lookup n.url with
  | none => simp only [hl] at hr; exact Or.inl hr
  | some e =>
    obtain ⟨heP, heu, _⟩ := h.sound _ _ hl
    simp only [hl, hpref] at hr
    split at hr
    · rename_i hc
      rcases List.mem_cons.mp hr with hr | hr
      · right
        refine ⟨e, List.mem_append_left _ heP, hr.symm, ?_⟩
        simp only [Bool.or_eq_true, Bool.and_eq_true, beq_iff_eq, bne_iff_ne] at hc
        rcases hc with hc | hc
        · exact absurd hc.1.1 (by decide)
        · exact hc.1.2
      · exact Or.inl hr
    · rename_i hc
      rcases List.mem_cons.mp hr with hr | hr
      · right
        refine ⟨n, by simp, hr.symm, ?_⟩
        -- `n` not fresh ⇒ the holder is not fresh either ⇒ two processed nodes share a URL
        cases hn : n.st with
        | fresh => rfl
        | _ =>
          exfalso
          have hnf : n.st ≠ .fresh := by rw [hn]; decide
          have hef : e.st ≠ .fresh := by
            intro hef
            apply hc
            simp [hef, hn]
          have := hu e (List.mem_append_left _ heP) n (by simp) hef hnf heu
          exact hne e heP (by rw [this])
      · exact Or.inl hr

theorem fold_removed_fresh (F : Facts) (hF : okDedupe F = true) (P rest : List Info) (s : DState)
    (hn : ((P ++ rest).map (·.id)).Nodup) (h : DInv P s) (hu : ProcessedUnique (P ++ rest))
    (hs : ∀ r ∈ s.removed, ∃ m ∈ P, m.id = r ∧ m.st = .fresh) :
    ∀ r ∈ (rest.foldl (dedupeStep F) s).removed, ∃ m ∈ P ++ rest, m.id = r ∧ m.st = .fresh := by
  induction rest generalizing P s with
  | nil => simpa using hs
  | cons n ns ih =>
    have heq : (P ++ n :: ns) = (P ++ [n]) ++ ns := by simp
    have hn' : ((P ++ [n]).map (·.id)).Nodup := by
      rw [heq, List.map_append] at hn; exact (List.nodup_append.mp hn).1
    have hne : ∀ m ∈ P, m.id ≠ n.id := by
      intro m hm
      rw [List.map_append] at hn'
      exact (List.nodup_append.mp hn').2.2 m.id (List.mem_map.mpr ⟨m, hm, rfl⟩) n.id (by simp)
    have hu' : ProcessedUnique (P ++ [n]) := by
      intro a ha b hb
      exact hu a (by rw [heq]; exact List.mem_append_left _ ha) b (by rw [heq]; exact List.mem_append_left _ hb)
    have hstep := dinv_step F P n s hn' h
    have hfr := step_removed_fresh F hF P n s h hu' hne
    have := ih (P ++ [n]) (dedupeStep F s n) (by rw [← heq]; exact hn) hstep (by rw [← heq]; exact hu)
      (by
        intro r hr
        rcases hfr r hr with h1 | h1
        · obtain ⟨m, hm, hmm⟩ := hs r h1
          exact ⟨m, List.mem_append_left _ hm, hmm⟩
        · exact h1)
    rw [heq]; simpa using this

mutual
/-- fresh nodes have no children (part of what `CheckConsistency` demands) -/
def Tree.freshLeaf : Tree → Bool
  | .node i k => (i.st != .fresh || (match k with | .nil => true | .cons _ _ => false)) && k.freshLeaf
def Forest.freshLeaf : Forest → Bool
  | .nil => true
  | .cons t f => t.freshLeaf && f.freshLeaf
end

mutual
theorem Tree.flatten_prune_eq (rm : List String) (t : Tree) (hk : keepP rm t.info = true)
    (hleaf : ∀ i ∈ t.flatten, rm.contains i.id = true → i.st = .fresh) (hfl : t.freshLeaf = true) :
    (t.prune rm).flatten = t.flatten.filter (keepP rm) := by
  match t, hk, hleaf, hfl with
  | .node i k, hk, hleaf, hfl =>
    simp only [Tree.info] at hk
    simp only [Tree.freshLeaf, Bool.and_eq_true] at hfl
    simp only [Tree.prune, Tree.flatten, List.filter_cons, hk, if_true]
    congr 1
    exact Forest.flatten_prune_eq rm k (fun j hj => hleaf j (by simp [Tree.flatten, hj])) hfl.2
theorem Forest.flatten_prune_eq (rm : List String) (f : Forest)
    (hleaf : ∀ i ∈ f.flatten, rm.contains i.id = true → i.st = .fresh) (hfl : f.freshLeaf = true) :
    (f.prune rm).flatten = f.flatten.filter (keepP rm) := by
  match f, hleaf, hfl with
  | .nil, _, _ => simp [Forest.prune, Forest.flatten]
  | .cons t f, hleaf, hfl =>
    simp only [Forest.freshLeaf, Bool.and_eq_true] at hfl
    have ihf := Forest.flatten_prune_eq rm f (fun j hj => hleaf j (by simp [Forest.flatten, hj])) hfl.2
    simp only [Forest.prune, Forest.flatten, List.filter_append]
    split
    · rename_i hc
      -- a removed node is fresh, hence a leaf: its flattening is itself, and it is filtered out
      match t, hc, hleaf, hfl with
      | .node i k, hc, hleaf, hfl =>
        simp only [Tree.info] at hc
        have hi : i.st = .fresh := hleaf i (by simp [Forest.flatten, Tree.flatten]) hc
        have hk : k = .nil := by
          have := hfl.1
          simp only [Tree.freshLeaf, Bool.and_eq_true, Bool.or_eq_true, bne_iff_ne] at this
          rcases this.1 with h1 | h1
          · exact absurd hi h1
          · cases k with
            | nil => rfl
            | cons _ _ => cases h1
        subst hk
        have hc' : i.id ∈ rm := by simpa using hc
        simp [Tree.flatten, Forest.flatten, keepP, hc', ihf]
    · rename_i hc
      simp only [Forest.flatten]
      rw [Tree.flatten_prune_eq rm t (by simpa [keepP] using hc)
        (fun j hj => hleaf j (by simp [Forest.flatten, hj])) hfl.1, ihf]
end

theorem Tree.kids_mark (F : Facts) (i : Info) (k : Forest) : ((Tree.node i k).mark F).kids = k.mark F := by
  simp only [Tree.mark]
  split <;> simp [Tree.kids]

/-- De-duplication never discards a URL altogether: in a tree whose fresh nodes are leaves and
whose processed nodes have pairwise distinct URLs, every URL below the seed is still there. -/
theorem dedupe_keeps_urls (F : Facts) (hF : okDedupe F = true) (i : Info) (k : Forest)
    (hid : (k.flatten.map (·.id)).Nodup) (hfl : k.freshLeaf = true) (hu : ProcessedUnique k.flatten) :
    ∀ u ∈ k.flatten.map (·.url), u ∈ (dedupe F (.node i k)).kids.flatten.map (·.url) := by
  intro u hu'
  obtain ⟨m, hm, hmu⟩ := List.mem_map.mp hu'
  have hinv := dinv_fold F [] k.flatten { seen := [], removed := [] } (by simpa using hid) dinv_init
  have hfresh := fold_removed_fresh F hF [] k.flatten { seen := [], removed := [] } (by simpa using hid) dinv_init
    (by simpa using hu) (by simp)
  simp only [List.nil_append] at hinv hfresh
  -- the holder of `u` at the end of the loop is a node that is not removed
  obtain ⟨e, he⟩ := hinv.covered m hm
  obtain ⟨heP, heu, her⟩ := hinv.sound _ _ he
  have hkeep : e ∈ k.flatten.filter (keepP (dedupeRemoved F k.flatten)) := by
    simp only [List.mem_filter, keepP, Bool.not_eq_true', List.contains_eq_mem, decide_eq_false_iff_not]
    exact ⟨heP, her⟩
  have hleaf : ∀ j ∈ k.flatten, (dedupeRemoved F k.flatten).contains j.id = true → j.st = .fresh := by
    intro j hj hc
    simp only [List.contains_eq_mem, decide_eq_true_eq] at hc
    obtain ⟨m', hm', hid', hst'⟩ := hfresh _ hc
    have : m' = j := eq_of_id_eq _ hid m' j hm' hj hid'
    rw [← this]; exact hst'
  have hprune := Forest.flatten_prune_eq (dedupeRemoved F k.flatten) k hleaf hfl
  -- unfold `dedupe` on the seed
  have hkids : (dedupe F (.node i k)).kids = (k.prune (dedupeRemoved F k.flatten)).mark F := by
    simp only [dedupe, Tree.prune]
    exact Tree.kids_mark F i _
  rw [hkids]
  have hmark := Forest.flatten_mark F (k.prune (dedupeRemoved F k.flatten))
  have hm2 : ((k.prune (dedupeRemoved F k.flatten)).mark F).flatten.map (·.url)
      = (k.prune (dedupeRemoved F k.flatten)).flatten.map (·.url) := by
    have := congrArg (List.map Prod.snd) hmark
    simpa [List.map_map, Function.comp_def] using this
  rw [hm2, hprune]
  exact List.mem_map.mpr ⟨e, hkeep, by rw [heu, hmu]⟩

/-- De-duplication leaves one node per URL below the seed. -/
theorem dedupe_nodup (F : Facts) (i : Info) (k : Forest) (hid : (k.flatten.map (·.id)).Nodup) :
    ((dedupe F (.node i k)).kids.flatten.map (·.url)).Nodup := by
  have hkids : (dedupe F (.node i k)).kids = (k.prune (dedupeRemoved F k.flatten)).mark F := by
    simp only [dedupe, Tree.prune]
    exact Tree.kids_mark F i _
  rw [hkids]
  have hmark := Forest.flatten_mark F (k.prune (dedupeRemoved F k.flatten))
  have hm2 : ((k.prune (dedupeRemoved F k.flatten)).mark F).flatten.map (·.url)
      = (k.prune (dedupeRemoved F k.flatten)).flatten.map (·.url) := by
    have := congrArg (List.map Prod.snd) hmark
    simpa [List.map_map, Function.comp_def] using this
  rw [hm2]
  exact ((Forest.flatten_prune _ k).map _).nodup (kept_urls_nodup F k.flatten hid)

/-! ### consistency is preserved -/

theorem Forest.length_prune_le (rm : List String) (f : Forest) : (f.prune rm).length ≤ f.length := by
  match f with
  | .nil => simp [Forest.prune]
  | .cons t f =>
    have := Forest.length_prune_le rm f
    simp only [Forest.prune]
    split <;> simp only [Forest.length] <;> omega

theorem Forest.length_mark (F : Facts) (f : Forest) : (f.mark F).length = f.length := by
  match f with
  | .nil => simp [Forest.mark]
  | .cons t f => simp [Forest.mark, Forest.length, Forest.length_mark F f]

theorem checkNode_none_iff (F : Facts) (p : Option Status) (i : Info) (n : Nat) :
    checkNode F p i n = none ↔
      (c1 p i = false ∧ c2 i n = false ∧ c3 F p i = false ∧ c4 i n = false ∧ c5 F i n = false) := by
  unfold checkNode
  cases c1 p i <;> cases c2 i n <;> cases c3 F p i <;> cases c4 i n <;> cases c5 F i n <;> simp

/-- fewer children never create an inconsistency -/
theorem checkNode_mono (F : Facts) (p : Option Status) (i : Info) (n m : Nat) (hle : m ≤ n)
    (h : checkNode F p i n = none) : checkNode F p i m = none := by
  rw [checkNode_none_iff] at h ⊢
  obtain ⟨h1, h2, h3, h4, h5⟩ := h
  refine ⟨h1, ?_, h3, ?_, ?_⟩
  · simp only [c2, Bool.and_eq_false_iff, decide_eq_false_iff_not] at h2 ⊢
    rcases h2 with h2 | h2
    · exact Or.inl h2
    · exact Or.inr (by omega)
  · simp only [c4, Bool.and_eq_false_iff, decide_eq_false_iff_not] at h4 ⊢
    rcases h4 with h4 | h4
    · exact Or.inl (by omega)
    · exact Or.inr h4
  · simp only [c5, Bool.and_eq_false_iff, decide_eq_false_iff_not] at h5 ⊢
    rcases h5 with h5 | h5
    · exact Or.inl (by omega)
    · exact Or.inr h5

mutual
theorem Tree.check_prune (F : Facts) (rm : List String) (p : Option Status) (t : Tree)
    (h : t.check F p = none) : (t.prune rm).check F p = none := by
  match t, h with
  | .node i k, h =>
    simp only [Tree.check] at h
    split at h
    · cases h
    · rename_i hc
      simp only [Tree.prune, Tree.check]
      rw [checkNode_mono F p i _ _ (Forest.length_prune_le rm k) hc]
      exact Forest.check_prune F rm i.st k h
theorem Forest.check_prune (F : Facts) (rm : List String) (p : Status) (f : Forest)
    (h : f.check F p = none) : (f.prune rm).check F p = none := by
  match f, h with
  | .nil, _ => simp [Forest.prune, Forest.check]
  | .cons t f, h =>
    simp only [Forest.check] at h
    split at h
    · cases h
    · rename_i ht
      simp only [Forest.prune]
      split
      · exact Forest.check_prune F rm p f h
      · simp only [Forest.check, Tree.check_prune F rm (some p) t ht]
        exact Forest.check_prune F rm p f h
end

/-- the parent's status matters to a forest's consistency only through fresh children -/
theorem Forest.check_parent (F : Facts) (p p' : Status) (f : Forest)
    (hnf : ∀ t ∈ f.toList, t.st ≠ .fresh) (h : f.check F p = none) : f.check F p' = none := by
  match f, hnf, h with
  | .nil, _, _ => simp [Forest.check]
  | .cons t f, hnf, h =>
    simp only [Forest.check] at h ⊢
    split at h
    · cases h
    · rename_i ht
      have hrest := Forest.check_parent F p p' f (fun x hx => hnf x (by simp [Forest.toList, hx])) h
      have htf : t.st ≠ .fresh := hnf t (by simp [Forest.toList])
      match t, ht, htf with
      | .node i k, ht, htf =>
        simp only [Tree.st, Tree.info] at htf
        simp only [Tree.check] at ht ⊢
        split at ht
        · cases ht
        · rename_i hc
          have hc' : checkNode F (some p') i k.length = none := by
            rw [checkNode_none_iff] at hc ⊢
            obtain ⟨h1, h2, h3, h4, h5⟩ := hc
            refine ⟨by simpa [c1] using h1, h2, ?_, h4, h5⟩
            simp only [c3, Bool.and_eq_false_iff, beq_eq_false_iff_ne]
            exact Or.inl htf
          simp only [hc', ht, hrest]

theorem Forest.allDone_not_fresh (F : Facts) (h : okSets F = true) (f : Forest) (hd : f.allDone F = true) :
    ∀ t ∈ f.toList, t.st ≠ .fresh := by
  match f, hd with
  | .nil, _ => simp [Forest.toList]
  | .cons t f, hd =>
    simp only [Forest.allDone, Bool.and_eq_true, Bool.not_eq_true'] at hd
    intro x hx
    simp only [Forest.toList, List.mem_cons] at hx
    rcases hx with hx | hx
    · subst hx
      intro hf
      have := hd.1
      rw [hasWork_eq F h, hf] at this
      simp at this
    · exact Forest.allDone_not_fresh F h f hd.2 x hx

mutual
/-- completion marking keeps the tree consistent -/
theorem Tree.check_mark (F : Facts) (hs : okSets F = true) (hc : okCheck F = true) (p : Option Status) (t : Tree)
    (h : t.check F p = none) : (t.mark F).check F p = none := by
  match t, h with
  | .node i k, h =>
    simp only [Tree.check] at h
    split at h
    · cases h
    · rename_i hn
      have ihk := Forest.check_mark F hs hc i.st k h
      simp only [Tree.mark]
      split
      · rename_i hm
        simp only [Bool.and_eq_true] at hm
        have hmk : (i.st == .gotChildren || i.st == .gotRedirected) = true := by
          rw [← markable_eq F hs]; exact hm.2
        simp only [Tree.check, Forest.length_mark]
        have hn' : checkNode F p { i with st := .completed } k.length = none := by
          rw [checkNode_none_iff] at hn ⊢
          obtain ⟨h1, h2, h3, h4, h5⟩ := hn
          simp only [okCheck, Bool.and_eq_true, beq_iff_eq] at hc
          refine ⟨by simpa [c1] using h1, by simp [c2], by simp [c3], by simp [c4], ?_⟩
          simp [c5, hc.1.1.1.2, Status.name]
        rw [hn']
        exact Forest.check_parent F i.st .completed _ (Forest.allDone_not_fresh F hs _ hm.1) ihk
      · simp only [Tree.check, Forest.length_mark, hn]
        exact ihk
theorem Forest.check_mark (F : Facts) (hs : okSets F = true) (hc : okCheck F = true) (p : Status) (f : Forest)
    (h : f.check F p = none) : (f.mark F).check F p = none := by
  match f, h with
  | .nil, _ => simp [Forest.mark, Forest.check]
  | .cons t f, h =>
    simp only [Forest.check] at h
    split at h
    · cases h
    · rename_i ht
      simp only [Forest.mark, Forest.check, Tree.check_mark F hs hc (some p) t ht]
      exact Forest.check_mark F hs hc p f h
end

/-- `DedupeItems` keeps a consistent seed consistent -/
theorem dedupe_consistent (F : Facts) (hs : okSets F = true) (hc : okCheck F = true) (t : Tree)
    (h : t.check F none = none) : (dedupe F t).check F none = none := by
  unfold dedupe
  exact Tree.check_mark F hs hc none _ (Tree.check_prune F _ none t h)

/-- `CompleteAndCheck` keeps a consistent seed consistent -/
theorem complete_consistent (F : Facts) (hs : okSets F = true) (hc : okCheck F = true) (t : Tree)
    (h : t.check F none = none) : (completeAndCheck F t).1.check F none = none := by
  unfold completeAndCheck
  split
  · exact h
  · exact Tree.check_mark F hs hc none t h

/-! #### the mutations the stages perform -/

theorem Forest.length_mapNode (id : String) (g : Info → Forest → Tree) (f : Forest) :
    (f.mapNode id g).length = f.length := by
  match f with
  | .nil => simp [Forest.mapNode]
  | .cons t f => simp [Forest.mapNode, Forest.length, Forest.length_mapNode id g f]

/-- what a rewrite `g` of the node(s) called `id` must satisfy to keep the tree consistent:
under any parent status the rewritten subtree is consistent and its root is not fresh, whenever the
original subtree was consistent -/
def GoodRewrite (F : Facts) (id : String) (g : Info → Forest → Tree) : Prop :=
  ∀ (p : Option Status) (i : Info) (k : Forest), i.id = id → (Tree.node i k).check F p = none →
    (g i k).check F p = none ∧ ((g i k).st = .fresh → i.st = .fresh)

mutual
theorem Tree.check_mapNode (F : Facts) (id : String) (g : Info → Forest → Tree) (hg : GoodRewrite F id g)
    (p : Option Status) (t : Tree) (h : t.check F p = none) :
    (t.mapNode id g).check F p = none ∧ ((t.mapNode id g).st = .fresh → t.st = .fresh) := by
  match t, h with
  | .node i k, h =>
    simp only [Tree.mapNode]
    split
    · rename_i hid
      exact hg p i k (by simpa using hid) h
    · simp only [Tree.check] at h ⊢
      split at h
      · cases h
      · rename_i hn
        simp only [Forest.length_mapNode, hn]
        exact ⟨Forest.check_mapNode F id g hg i.st k h, by simp [Tree.st, Tree.info]⟩
theorem Forest.check_mapNode (F : Facts) (id : String) (g : Info → Forest → Tree) (hg : GoodRewrite F id g)
    (p : Status) (f : Forest) (h : f.check F p = none) : (f.mapNode id g).check F p = none := by
  match f, h with
  | .nil, _ => simp [Forest.mapNode, Forest.check]
  | .cons t f, h =>
    simp only [Forest.check] at h
    split at h
    · cases h
    · rename_i ht
      simp only [Forest.mapNode, Forest.check, (Tree.check_mapNode F id g hg (some p) t ht).1]
      exact Forest.check_mapNode F id g hg p f h
end

/-- a stage giving a childless node a non-fresh status keeps the tree consistent
(Fresh→PreProcessed/Seen, PreProcessed→Archived/Failed, Archived→Completed/Failed, seed→Completed) -/
theorem setStatus_leaf_consistent (F : Facts) (t : Tree) (id : String) (s : Status) (hs : s ≠ .fresh)
    (hleaf : ∀ (i : Info) (k : Forest), i.id = id → k = .nil)
    (h : t.check F none = none) : (t.setStatus id s).check F none = none := by
  unfold Tree.setStatus
  refine (Tree.check_mapNode F id _ ?_ none t h).1
  intro p i k hid hc
  have hk := hleaf i k hid
  subst hk
  simp only [Tree.check] at hc ⊢
  split at hc
  · cases hc
  · rename_i hn
    rw [checkNode_none_iff] at hn
    have : checkNode F p { i with st := s } Forest.nil.length = none := by
      rw [checkNode_none_iff]
      refine ⟨by simpa [c1] using hn.1, ?_, ?_, ?_, ?_⟩
      · simp [c2, Forest.length]
      · simp [c3, hs]
      · simp [c4, Forest.length]
      · simp [c5, Forest.length]
    simp only [this, Forest.check, Tree.st, Tree.info, true_and]
    intro hf; exact absurd hf hs

theorem Forest.length_removeFirst_le (cid : String) (f : Forest) : (f.removeFirst cid).length ≤ f.length := by
  match f with
  | .nil => simp [Forest.removeFirst]
  | .cons t f =>
    have := Forest.length_removeFirst_le cid f
    simp only [Forest.removeFirst]
    split <;> simp only [Forest.length] <;> omega

theorem Forest.check_removeFirst (F : Facts) (cid : String) (p : Status) (f : Forest) (h : f.check F p = none) :
    (f.removeFirst cid).check F p = none := by
  match f, h with
  | .nil, _ => simp [Forest.removeFirst, Forest.check]
  | .cons t f, h =>
    simp only [Forest.check] at h
    split at h
    · cases h
    · rename_i ht
      simp only [Forest.removeFirst]
      split
      · exact h
      · simp only [Forest.check, ht]
        exact Forest.check_removeFirst F cid p f h

/-- the preprocessor removing a rejected child keeps the tree consistent -/
theorem removeChild_consistent (F : Facts) (t : Tree) (pid cid : String) (h : t.check F none = none) :
    (t.removeChild pid cid).check F none = none := by
  unfold Tree.removeChild
  refine (Tree.check_mapNode F pid _ ?_ none t h).1
  intro p i k _ hc
  simp only [Tree.check] at hc ⊢
  split at hc
  · cases hc
  · rename_i hn
    rw [checkNode_mono F p i _ _ (Forest.length_removeFirst_le cid k) hn]
    exact ⟨Forest.check_removeFirst F cid i.st k hc, by simp [Tree.st, Tree.info]⟩

theorem Forest.length_append (f g : Forest) : (f.append g).length = f.length + g.length := by
  match f with
  | .nil => simp [Forest.append, Forest.length]
  | .cons t f => simp [Forest.append, Forest.length, Forest.length_append f g]; omega

/-- changing the parent's status to one that may have fresh children keeps a forest consistent -/
theorem Forest.check_goodParent (F : Facts) (p p' : Status) (f : Forest)
    (hp : badParent F (some p') = false) (h : f.check F p = none) : f.check F p' = none := by
  match f, h with
  | .nil, _ => simp [Forest.check]
  | .cons t f, h =>
    simp only [Forest.check] at h ⊢
    split at h
    · cases h
    · rename_i ht
      have hrest := Forest.check_goodParent F p p' f hp h
      match t, ht with
      | .node i k, ht =>
        simp only [Tree.check] at ht ⊢
        split at ht
        · cases ht
        · rename_i hc
          have hc' : checkNode F (some p') i k.length = none := by
            rw [checkNode_none_iff] at hc ⊢
            obtain ⟨h1, h2, h3, h4, h5⟩ := hc
            refine ⟨by simpa [c1] using h1, h2, ?_, h4, h5⟩
            simp [c3, hp]
          simp only [hc', ht, hrest]

theorem Forest.check_append (F : Facts) (p : Status) (f g : Forest) (hf : f.check F p = none)
    (hg : g.check F p = none) : (f.append g).check F p = none := by
  match f, hf with
  | .nil, _ => simpa [Forest.append] using hg
  | .cons t f, hf =>
    simp only [Forest.check] at hf
    split at hf
    · cases hf
    · rename_i ht
      simp only [Forest.append, Forest.check, ht]
      exact Forest.check_append F p f g hf hg

/-- the postprocessor adding a child (asset: `GotChildren`, any number; redirect target:
`GotRedirected`, to a childless node) keeps the tree consistent -/
theorem addChild_consistent (F : Facts) (hc : okCheck F = true) (t : Tree) (pid : String) (c : Info)
    (from' : Status) (hfrom : from' = .gotChildren ∨ from' = .gotRedirected) (hvia : c.via = false)
    (hred : from' = .gotRedirected → ∀ (i : Info) (k : Forest), i.id = pid → k = .nil)
    (h : t.check F none = none) : (t.addChild pid c from').check F none = none := by
  simp only [okCheck, Bool.and_eq_true, beq_iff_eq] at hc
  have hfp : badParent F (some from') = false := by
    rcases hfrom with hf | hf <;> simp [badParent, hc.1.1.1.1, hf, Status.name]
  have hwc : F.withChildrenStatuses.contains from'.name = true := by
    rcases hfrom with hf | hf <;> simp [hc.1.1.1.2, hf, Status.name]
  have hnf : from' ≠ .fresh := by rcases hfrom with hf | hf <;> simp [hf]
  unfold Tree.addChild
  refine (Tree.check_mapNode F pid _ ?_ none t h).1
  intro p i k hid hck
  simp only [Tree.check] at hck ⊢
  split at hck
  · cases hck
  · rename_i hn
    rw [checkNode_none_iff] at hn
    have hlen := Forest.length_append k (.cons (.node { c with st := .fresh } .nil) .nil)
    simp only [Forest.length] at hlen
    have hnode : checkNode F p { i with st := from' }
        (k.append (.cons (.node { c with st := .fresh } .nil) .nil)).length = none := by
      rw [checkNode_none_iff, hlen]
      refine ⟨by simpa [c1] using hn.1, ?_, ?_, ?_, ?_⟩
      · simp [c2, hnf]
      · simp [c3, hnf]
      · simp only [c4, Bool.and_eq_false_iff, decide_eq_false_iff_not, beq_eq_false_iff_ne]
        by_cases hr : from' = .gotRedirected
        · left
          have := hred hr i k hid
          subst this; simp [Forest.length]
        · right; exact hr
      · have hwc' : from'.name ∈ F.withChildrenStatuses := by simpa using hwc
        simp [c5, hwc']
    simp only [hnode, Tree.st, Tree.info]
    refine ⟨?_, fun hf => absurd hf hnf⟩
    apply Forest.check_append
    · exact Forest.check_goodParent F i.st from' k hfp hck
    · simp only [Forest.check, Tree.check, Forest.length]
      have : checkNode F (some from') { c with st := .fresh } 0 = none := by
        rw [checkNode_none_iff]
        refine ⟨by simp [c1, hvia], by simp [c2], ?_, by simp [c4], by simp [c5]⟩
        simp [c3, hfp]
      simp [this]

end Zeno.Model.Item
