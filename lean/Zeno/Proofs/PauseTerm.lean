import Zeno.Proofs.Pause
/-!
Termination of the pause / resume protocol: a measure that every internal step strictly decreases. With
`quiescent_facts` (nothing is left pending in a quiescent reachable state) this gives total correctness: from every
reachable state every schedule of internal steps is finite — at most `mu s` steps — and ends with every `Pause` and
`Resume` call returned.
-/
set_option linter.unusedSimpArgs false
set_option linter.unusedVariables false
namespace Zeno.Model.Pause
open Zeno

def sumLen (L : List (List Nat)) : Nat := (L.map List.length).sum

def cntF (n : Nat) (subs : Nat → Sub) (p : Sub → Bool) : Nat := (List.range n).countP (fun j => p (subs j))

/-- the measure: blocked Resumes weigh more than what they add when they start; each pause signal still to be sent
weighs two (sending it hands a token to a worker), collected entries, tokens and live workers one each -/
def mu (s : S) : Nat :=
  (s.n + 2) * s.waiting + s.resumes.length + sumLen s.resumes + 2 * sumLen s.pauses +
  cntF s.n s.subs (·.token) + cntF s.n s.subs (·.live)

theorem sumLen_dropEmpty (L : List (List Nat)) : sumLen (dropEmpty L) = sumLen L := by
  induction L with
  | nil => rfl
  | cons x xs ih =>
    simp only [dropEmpty, List.filter_cons] at ih ⊢
    cases x with
    | nil => simp only [List.isEmpty_nil, Bool.not_true, Bool.false_eq_true, if_false]; simp only [sumLen, List.map_cons, List.length_nil, List.sum_cons, Nat.zero_add] at ih ⊢; exact ih
    | cons a as =>
      simp only [List.isEmpty_cons, Bool.not_false, if_true]
      simp only [sumLen, List.map_cons, List.sum_cons] at ih ⊢
      omega

theorem sumLen_set (L : List (List Nat)) (k : Nat) (w w' : List Nat) (hk : L[k]? = some w) :
    sumLen (L.set k w') + w.length = sumLen L + w'.length := by
  induction L generalizing k with
  | nil => simp at hk
  | cons x xs ih =>
    cases k with
    | zero =>
      simp only [List.getElem?_cons_zero, Option.some.injEq] at hk
      subst hk
      simp only [sumLen, List.set_cons_zero, List.map_cons, List.sum_cons]
      omega
    | succ k' =>
      simp only [List.getElem?_cons_succ] at hk
      have := ih k' hk
      simp only [sumLen, List.set_cons_succ, List.map_cons, List.sum_cons] at this ⊢
      omega

theorem sumLen_eraseIdx_nil (L : List (List Nat)) (k : Nat) (hk : L[k]? = some []) :
    sumLen (L.eraseIdx k) = sumLen L ∧ (L.eraseIdx k).length + 1 = L.length := by
  induction L generalizing k with
  | nil => simp at hk
  | cons x xs ih =>
    cases k with
    | zero =>
      simp only [List.getElem?_cons_zero, Option.some.injEq] at hk
      subst hk
      simp [sumLen]
    | succ k' =>
      simp only [List.getElem?_cons_succ] at hk
      have := ih k' hk
      simp only [sumLen, List.eraseIdx_cons_succ, List.map_cons, List.sum_cons, List.length_cons] at this ⊢
      omega

theorem sumLen_append_one (L : List (List Nat)) (w : List Nat) : sumLen (L ++ [w]) = sumLen L + w.length := by
  simp [sumLen]

theorem liveIdx_length_le (s : S) : s.liveIdx.length ≤ s.n := by
  unfold S.liveIdx
  calc ((List.range s.n).filter _).length ≤ (List.range s.n).length := List.length_filter_le _ _
    _ = s.n := List.length_range

/-- counting over `range n` when the function is changed at one index below `n` -/
theorem countP_update (n i : Nat) (f : Nat → Bool) (b : Bool) (hi : i < n) :
    (List.range n).countP (fun j => if j = i then b else f j) + (if f i then 1 else 0) =
    (List.range n).countP f + (if b then 1 else 0) := by
  induction n with
  | zero => omega
  | succ m ih =>
    rw [List.range_succ, List.countP_append, List.countP_append]
    simp only [List.countP_cons, List.countP_nil, Nat.zero_add]
    by_cases him : i = m
    · subst him
      have hsame : (List.range i).countP (fun j => if j = i then b else f j) = (List.range i).countP f := by
        apply List.countP_congr
        intro j hj
        have : j < i := List.mem_range.1 hj
        simp [Nat.ne_of_lt this]
      rw [hsame]
      simp only [if_true]
      cases b <;> cases f i <;> simp
    · have : i < m := by omega
      have := ih this
      simp only [show ¬ m = i from fun h => him h.symm, if_false]
      omega

theorem cntF_setSub (s : S) (i : Nat) (u : Sub) (p : Sub → Bool) (hi : i < s.n) :
    cntF s.n (s.setSub i u).subs p + (if p (s.subs i) then 1 else 0) = cntF s.n s.subs p + (if p u then 1 else 0) := by
  have := countP_update s.n i (fun j => p (s.subs j)) (p u) hi
  simp only [cntF, S.setSub]
  have hc : (List.range s.n).countP (fun j => p (if j = i then u else s.subs j)) =
      (List.range s.n).countP (fun j => if j = i then p u else p (s.subs j)) := by
    apply List.countP_congr
    intro j _
    by_cases h : j = i <;> simp [h]
  rw [hc]
  exact this

theorem cnt_upd (s : S) (i : Nat) (u : Sub) (p : Sub → Bool) (hi : i < s.n) (a b : Bool) (ha : p (s.subs i) = a) (hb : p u = b) :
    cntF s.n (fun j => if j = i then u else s.subs j) p + (if a then 1 else 0) = cntF s.n s.subs p + (if b then 1 else 0) := by
  have := cntF_setSub s i u p hi
  simp only [S.setSub, ha, hb] at this
  cases a <;> cases b <;> simp_all

theorem sub_eq_subs (s : S) (i : Nat) (hi : i < s.n) : s.sub i = s.subs i := by simp [S.sub, hi]

/-- **every internal step strictly decreases the measure** -/
theorem mu_decreases (F : Facts) (s s' : S) (a : Act) (hint : a.internal = true) (hs : step F s a = some s') : mu s' < mu s := by
  cases a with
  | pauseCall => cases hint
  | resumeCall => cases hint
  | stopCall => cases hint
  | subscribe => cases hint
  | pauseSend k =>
    simp only [step] at hs
    split at hs
    · rename_i i rest hk
      simp only [Option.some.injEq] at hs
      have hset := sumLen_set s.pauses k (i :: rest) rest hk
      simp only [List.length_cons] at hset
      by_cases hl : (s.sub i).live = true
      · have hi : i < s.n := live_lt s i hl
        have hl' : (s.subs i).live = true := by rw [← sub_eq_subs s i hi]; exact hl
        have hv := cnt_upd s i { s.sub i with token := true } (·.live) hi true true hl' (by simp [Sub.live] at hl ⊢; exact hl)
        simp only [hl, if_true] at hs
        subst hs
        simp only [mu, sumLen_dropEmpty, S.setSub]
        cases htk : (s.subs i).token
        · have ht := cnt_upd s i { s.sub i with token := true } (·.token) hi false true htk rfl
          simp only [Bool.false_eq_true, if_false, if_true] at ht hv
          omega
        · have ht := cnt_upd s i { s.sub i with token := true } (·.token) hi true true htk rfl
          simp only [if_true] at ht hv
          omega
      · simp only [hl, Bool.false_eq_true, if_false] at hs
        subst hs
        simp only [mu, sumLen_dropEmpty]
        omega
    · cases hs
  | resumeRecv k i =>
    simp only [step] at hs
    split at hs
    · rename_i w hk
      split at hs
      · rename_i hmem
        have hlen : (w.erase i).length + 1 = w.length := by
          rw [List.length_erase_of_mem hmem]
          have : 0 < w.length := List.length_pos_of_mem hmem
          omega
        have hset := sumLen_set s.resumes k w (w.erase i) hk
        split at hs
        · rename_i hack
          simp only [Option.some.injEq] at hs
          have hi : i < s.n := sub_notexited_lt s i (by
            intro h; rw [h] at hack; simp at hack)
          have hst : (s.subs i).st = .acking := by
            have := sub_eq_subs s i hi; rw [this] at hack; simpa using hack
          have hv := cnt_upd s i { s.sub i with st := .running } (·.live) hi true true (by simp [Sub.live, hst]) (by simp [Sub.live])
          subst hs
          simp only [mu, List.length_set, S.setSub]
          cases htk : (s.subs i).token
          · have ht := cnt_upd s i { s.sub i with st := .running } (·.token) hi false false htk (by simp [sub_eq_subs s i hi, htk])
            simp only [Bool.false_eq_true, if_false, if_true] at ht hv
            omega
          · have ht := cnt_upd s i { s.sub i with st := .running } (·.token) hi true true htk (by simp [sub_eq_subs s i hi, htk])
            simp only [if_true] at ht hv
            omega
        · split at hs
          · simp only [Option.some.injEq] at hs
            subst hs
            simp only [mu, List.length_set]
            omega
          · cases hs
      · cases hs
    · cases hs
  | resumeFinish k =>
    simp only [step] at hs
    split at hs
    · rename_i hk
      simp only [Option.some.injEq] at hs
      obtain ⟨h1, h2⟩ := sumLen_eraseIdx_nil s.resumes k hk
      subst hs
      simp only [mu]
      omega
    · cases hs
  | waiterProceed =>
    simp only [step] at hs
    split at hs
    · rename_i hc
      simp only [Bool.and_eq_true, decide_eq_true_eq, List.isEmpty_iff] at hc
      obtain ⟨⟨hg, hr⟩, hw⟩ := hc
      simp only [Option.some.injEq] at hs
      obtain ⟨w, hw'⟩ : ∃ w, s.waiting = w + 1 := ⟨s.waiting - 1, by omega⟩
      have hll := liveIdx_length_le s
      have hlive : ∀ w', ({ s with waiting := w' } : S).liveIdx = s.liveIdx := fun _ => rfl
      subst hs
      unfold startResume
      split
      · simp only [mu, hw', Nat.add_sub_cancel, Nat.mul_add, Nat.mul_one]
        omega
      · simp only [mu, hw', Nat.add_sub_cancel, Nat.mul_add, Nat.mul_one, hr, List.nil_append, List.length_singleton,
          sumLen_append_one, hlive, List.length_nil]
        simp only [sumLen, List.map_nil, List.sum_nil, List.map_cons, List.sum_cons]
        have h3 := liveIdx_length_le { paused := s.paused, n := s.n, subs := s.subs, pauses := s.pauses, waiting := w, stop := s.stop }
        simp only at h3
        omega
    · cases hs
  | takeToken i =>
    simp only [step] at hs
    split at hs
    · rename_i hc
      simp only [Bool.and_eq_true, beq_iff_eq] at hc
      simp only [Option.some.injEq] at hs
      have hi : i < s.n := sub_token_lt s i hc.2
      have e1 : (s.subs i).token = true := by rw [← sub_eq_subs s i hi]; exact hc.2
      have e2 : (s.subs i).live = true := by
        have := hc.1; rw [sub_eq_subs s i hi] at this; simp [Sub.live, this]
      have ht := cnt_upd s i { st := .acking, token := false } (·.token) hi true false e1 rfl
      have hv := cnt_upd s i { st := .acking, token := false } (·.live) hi true true e2 (by simp [Sub.live])
      subst hs
      simp only [mu, S.setSub]
      simp only [Bool.false_eq_true, if_false, if_true] at ht hv
      omega
    · cases hs
  | exit i =>
    simp only [step] at hs
    split at hs
    · rename_i hc
      simp only [Bool.and_eq_true, decide_eq_true_eq, Bool.or_eq_true, beq_iff_eq] at hc
      obtain ⟨⟨_, hi⟩, hst⟩ := hc
      simp only [Option.some.injEq] at hs
      have e2 : (s.subs i).live = true := by
        rw [← sub_eq_subs s i hi]
        rcases hst with h | h
        · simp [Sub.live, h]
        · simp [Sub.live, h.1]
      have hv := cnt_upd s i { st := .exited, token := false } (·.live) hi true false e2 (by simp [Sub.live])
      subst hs
      simp only [mu, S.setSub]
      cases htk : (s.subs i).token
      · have ht := cnt_upd s i { st := .exited, token := false } (·.token) hi false false htk rfl
        simp only [Bool.false_eq_true, if_false, if_true] at ht hv
        omega
      · have ht := cnt_upd s i { st := .exited, token := false } (·.token) hi true false htk rfl
        simp only [Bool.false_eq_true, if_false, if_true] at ht hv
        omega
    · cases hs

/-- a schedule of internal steps: each action is internal and enabled when it is taken -/
inductive Run (F : Facts) : S → List Act → S → Prop
  | nil (s : S) : Run F s [] s
  | cons {s s' s'' : S} {a : Act} {as : List Act} (hi : a.internal = true) (hs : step F s a = some s') (hr : Run F s' as s'') :
      Run F s (a :: as) s''

/-- **no livelock**: a schedule of internal steps from `s` has at most `mu s` steps -/
theorem run_bounded (F : Facts) (s s' : S) (acts : List Act) (h : Run F s acts s') : acts.length + mu s' ≤ mu s := by
  induction h with
  | nil s => simp
  | cons hi hs hr ih =>
    have := mu_decreases F _ _ _ hi hs
    simp only [List.length_cons]
    omega

theorem run_reachable (F : Facts) (n : Nat) (s s' : S) (acts : List Act) (hr : Reachable F n s) (h : Run F s acts s') : Reachable F n s' := by
  induction h with
  | nil s => exact hr
  | cons hi hs hrun ih => exact ih (Reachable.step _ _ _ hr hs)

end Zeno.Model.Pause
