import Zeno.Model.Reactor
/-! Invariants of the sequential reactor model (core Lean only). -/
set_option linter.unnecessarySimpa false
namespace Zeno.Model.Reactor
open Zeno

/-- fact values the theorems rest on -/
def ok (F : Facts) : Bool :=
  F.tokenCapIsMax && F.inputCapIsMax && F.insertSeq == ["acquire", "loadOrStore", "enqueue"] &&
  F.insertAcquireCancellable && F.insertChecksClosedFirst && F.insertPanicsOnDuplicate &&
  F.feedbackUpdate == "loadCas" && F.feedbackChecksClosedFirst && F.feedbackEnqueueCancellable &&
  F.feedbackTakesNoToken && F.finishSeq == ["loadAndDelete", "release"] && F.finishReleaseOnlyIfLoaded &&
  F.runDeliverCancellable && F.freezeCancelsFreezeCtx && F.freezeCtxChildOfCtx &&
  F.stopSeq == ["globalReactor.cancel", "wg.Wait", "close"]

/-- what the token-accounting invariant needs -/
def okTokens (F : Facts) : Bool := F.feedbackUpdate == "loadCas"

theorem ok_tokens {F : Facts} (h : ok F = true) : okTokens F = true := by
  simp only [ok, Bool.and_eq_true] at h
  simp only [okTokens]; exact h.1.1.1.1.1.1.1.1.1.2

structure Inv (r : R) : Prop where
  tok : r.tokens = r.table.length
  nodup : r.table.Nodup
  le : r.tokens ≤ r.cap
  parked : r.blockedIns ≠ [] → r.tokens = r.cap ∧ r.frozen = false

/-- the invariant holds in every live state (a crashed / wedged process has no state to speak of) -/
def Good (r : R) : Prop := r.dead = true ∨ Inv r

theorem inv_init : Inv R.init := ⟨rfl, List.nodup_nil, Nat.le_refl _, by simp [R.init]⟩

theorem insertBody_good (r : R) (x : Id) (htok : r.tokens = r.table.length) (hnd : r.table.Nodup)
    (hlt : r.tokens < r.cap) (hp : r.blockedIns ≠ [] → r.tokens + 1 = r.cap ∧ r.frozen = false) :
    Good (insertBody r x).1 := by
  unfold insertBody
  simp only
  split
  · left; rfl
  · rename_i hx
    split
    · right
      refine ⟨?_, ?_, ?_, ?_⟩
      · simp [htok]
      · simp only
        refine List.nodup_append.mpr ⟨hnd, by simp, ?_⟩
        intro a ha b hb
        simp only [List.mem_singleton] at hb
        subst hb
        intro hab; subst hab; exact hx ha
      · simp only; omega
      · simpa using hp
    · left; rfl

theorem step_good (F : Facts) (hF : okTokens F = true) (r : R) (op : Op) (h : Good r) :
    Good (step F r op).1 := by
  simp only [okTokens, beq_iff_eq] at hF
  cases op with
  | start n =>
    simp only [step]
    split
    · exact h
    · right; exact ⟨rfl, List.nodup_nil, Nat.zero_le _, by simp [R.init]⟩
  | insert x =>
    simp only [step]
    split
    · exact h
    · rename_i hd
      split
      · exact h
      · rcases h with h | h
        · exact absurd h hd
        · split
          · right; exact h
          · rename_i hfz
            split
            · rename_i hlt
              have hb : r.blockedIns = [] := by
                by_cases hb : r.blockedIns = []
                · exact hb
                · have := (h.parked hb).1; omega
              exact insertBody_good r x h.tok h.nodup hlt (by simp [hb])
            · rename_i hge
              right
              have heq : r.tokens = r.cap := by have := h.le; omega
              refine ⟨h.tok, h.nodup, h.le, fun _ => ⟨heq, ?_⟩⟩
              simp only [Bool.and_eq_true, Bool.or_eq_true, Bool.not_eq_true', decide_eq_false_iff_not,
                not_and, not_or] at hfz
              cases hf : r.frozen with
              | false => rfl
              | true => exact absurd hge (hfz hf).2
  | feedback x =>
    simp only [step]
    split
    · exact h
    · rename_i hd
      split
      · exact h
      · rcases h with h | h
        · exact absurd h hd
        · simp only [hF]
          split
          · right; exact h
          · split
            · right; simpa using h
            · split
              · right; exact h
              · split
                · right; exact ⟨h.tok, h.nodup, h.le, h.parked⟩
                · left; rfl
  | finish x =>
    simp only [step]
    split
    · exact h
    · rename_i hd
      split
      · exact h
      · rcases h with h | h
        · exact absurd h hd
        · split
          · rename_i hx
            have hpos : 0 < r.tokens := by
              rw [h.tok]; exact List.length_pos_of_mem hx
            split
            · omega
            · have htok' : r.tokens - 1 = (r.table.erase x).length := by
                rw [List.length_erase_of_mem hx, h.tok]
              have hnd' := h.nodup.erase x
              have hle := h.le
              split
              · rename_i y rest hbl
                have hpk := h.parked (by rw [hbl]; simp)
                exact insertBody_good _ y htok' hnd' (by simp only; omega)
                  (by intro _; simp only; exact ⟨by omega, hpk.2⟩)
              · rename_i hbl
                right
                exact ⟨htok', hnd', by simp only; omega, by simp [hbl]⟩
          · right; exact h
  | freeze =>
    simp only [step]
    split
    · exact h
    · rename_i hd
      split
      · exact h
      · rcases h with h | h
        · exact absurd h hd
        · right; exact ⟨h.tok, h.nodup, h.le, by simp⟩
  | stop =>
    simp only [step]
    split
    · exact h
    · split
      · exact h
      · right; exact inv_init
  | recv =>
    simp only [step]
    split
    · exact h
    · rename_i hd
      split
      · exact h
      · rcases h with h | h
        · exact absurd h hd
        · split
          · right; exact ⟨h.tok, h.nodup, h.le, h.parked⟩
          · right; exact h

theorem run_good (F : Facts) (hF : okTokens F = true) (r : R) (ops : List Op) (h : Good r) :
    Good (run F r ops) := by
  induction ops generalizing r with
  | nil => exact h
  | cons o os ih => exact ih _ (step_good F hF r o h)

/-! ### Client discipline: the consumer only feeds back / finishes seeds it holds, the source
never inserts an id that is tracked or waiting. This is how the pipeline uses the reactor. -/

def Disc (r : R) : Op → Prop
  | .insert x => x ∉ r.table ∧ x ∉ r.blockedIns
  | .feedback x => x ∈ r.held
  | .finish x => x ∈ r.held
  | _ => True

instance (r : R) (op : Op) : Decidable (Disc r op) := by
  cases op <;> unfold Disc <;> infer_instance

structure Lin (r : R) : Prop where
  cnt : ∀ a, r.queue.count a + r.held.count a = r.table.count a
  parkedFresh : ∀ y ∈ r.blockedIns, y ∉ r.table
  parkedNodup : r.blockedIns.Nodup
  alive : r.dead = false

theorem lin_init : Lin R.init := ⟨by simp [R.init], by simp [R.init], by simp [R.init], rfl⟩

theorem len_of_counts (q h t : List Id) (hc : ∀ a, q.count a + h.count a = t.count a) :
    q.length + h.length = t.length := by
  have : (q ++ h).Perm t := List.perm_iff_count.mpr (fun a => by rw [List.count_append]; exact hc a)
  have := this.length_eq
  simpa using this

theorem room_of (r : R) (hi : Inv r) (hl : Lin r) (hh : r.held ≠ [] ∨ r.tokens < r.cap ∨ True) :
    r.queue.length ≤ r.cap := by
  have := len_of_counts _ _ _ hl.cnt
  have := hi.tok; have := hi.le
  omega

theorem held_facts (r : R) (hi : Inv r) (hl : Lin r) (x : Id) (hx : x ∈ r.held) :
    x ∈ r.table ∧ r.queue.count x = 0 ∧ r.held.count x = 1 ∧ r.table.count x = 1 := by
  have h1 : 1 ≤ r.held.count x := List.count_pos_iff.mpr hx
  have h2 := hl.cnt x
  have h3 : r.table.count x ≤ 1 := List.nodup_iff_count.mp hi.nodup x
  have h4 : 0 < r.table.count x := by omega
  exact ⟨List.count_pos_iff.mp h4, by omega, by omega, by omega⟩

theorem insertBody_full (r : R) (x : Id) (hi : r.tokens = r.table.length) (hnd : r.table.Nodup)
    (hlt : r.tokens < r.cap) (hp : r.blockedIns ≠ [] → r.tokens + 1 = r.cap ∧ r.frozen = false)
    (hl : Lin r) (hx : x ∉ r.table) (hxb : x ∉ r.blockedIns) :
    Inv (insertBody r x).1 ∧ Lin (insertBody r x).1 ∧ (insertBody r x).2 = .ok := by
  have hlen := len_of_counts _ _ _ hl.cnt
  have hroom : (r.queue.length < r.cap + 1) := by omega
  unfold insertBody
  simp only [hx, if_false, R.room, hroom, decide_true, if_true]
  refine ⟨⟨?_, ?_, ?_, ?_⟩, ⟨?_, ?_, ?_, ?_⟩, trivial⟩
  · simp [hi]
  · refine List.nodup_append.mpr ⟨hnd, by simp, ?_⟩
    intro a ha b hb
    simp only [List.mem_singleton] at hb
    subst hb
    intro hab; subst hab; exact hx ha
  · simp only; omega
  · simpa using hp
  · intro a
    have := hl.cnt a
    simp only [List.count_append, List.count_singleton]
    omega
  · intro y hy
    simp only [List.mem_append, List.mem_singleton, not_or]
    exact ⟨hl.parkedFresh y hy, fun h => hxb (h ▸ hy)⟩
  · exact hl.parkedNodup
  · exact hl.alive

/-- Under client discipline every step keeps both invariants; in particular the process never
crashes or wedges, so no call of a disciplined history blocks forever on the input channel. -/
theorem step_full (F : Facts) (hF : okTokens F = true) (r : R) (op : Op) (hi : Inv r) (hl : Lin r)
    (hd : Disc r op) : Inv (step F r op).1 ∧ Lin (step F r op).1 := by
  simp only [okTokens, beq_iff_eq] at hF
  have hal := hl.alive
  have hlen := len_of_counts _ _ _ hl.cnt
  have htok := hi.tok
  have hle := hi.le
  cases op with
  | start n =>
    simp only [step]
    split
    · exact ⟨hi, hl⟩
    · exact ⟨⟨rfl, List.nodup_nil, Nat.zero_le _, by simp [R.init]⟩, by
        refine ⟨?_, ?_, ?_, rfl⟩ <;> simp [R.init]⟩
  | insert x =>
    simp only [step, hal, Bool.false_eq_true, if_false]
    split
    · exact ⟨hi, hl⟩
    · split
      · exact ⟨hi, hl⟩
      · rename_i hfz
        split
        · rename_i hlt
          have hb : r.blockedIns = [] := by
            by_cases hb : r.blockedIns = []
            · exact hb
            · have := (hi.parked hb).1; omega
          have := insertBody_full r x hi.tok hi.nodup hlt (by simp [hb]) hl hd.1 hd.2
          exact ⟨this.1, this.2.1⟩
        · rename_i hge
          have heq : r.tokens = r.cap := by omega
          refine ⟨⟨hi.tok, hi.nodup, hi.le, fun _ => ⟨heq, ?_⟩⟩, ⟨hl.cnt, ?_, ?_, by simpa using hal⟩⟩
          · simp only [Bool.and_eq_true, Bool.or_eq_true, Bool.not_eq_true', decide_eq_false_iff_not,
              not_and, not_or] at hfz
            cases hf : r.frozen with
            | false => rfl
            | true => exact absurd hge (hfz hf).2
          · intro y hy
            simp only [List.mem_append, List.mem_singleton] at hy
            rcases hy with hy | hy
            · exact hl.parkedFresh y hy
            · subst hy; exact hd.1
          · simp only
            refine List.nodup_append.mpr ⟨hl.parkedNodup, by simp, ?_⟩
            intro a ha b hb
            simp only [List.mem_singleton] at hb
            subst hb
            intro hab; subst hab; exact hd.2 ha
  | feedback x =>
    have hx := held_facts r hi hl x hd
    simp only [step, hal, Bool.false_eq_true, if_false]
    split
    · exact ⟨hi, hl⟩
    · split
      · exact ⟨hi, hl⟩
      · simp only [hx.1, not_true_eq_false, if_false]
        have hroom : r.room = true := by simp only [R.room, decide_eq_true_eq]; omega
        simp only [hroom, Bool.not_true, Bool.or_false, if_true]
        split
        · exact ⟨hi, hl⟩
        · refine ⟨⟨hi.tok, hi.nodup, hi.le, hi.parked⟩, ⟨?_, hl.parkedFresh, hl.parkedNodup, by simpa using hal⟩⟩
          intro a
          have := hl.cnt a
          simp only [List.count_append, List.count_singleton]
          by_cases ha : a = x
          · subst ha
            rw [List.count_erase_self]
            simp; omega
          · rw [List.count_erase_of_ne ha]
            have : (x == a) = false := by simpa using fun h => ha h.symm
            simp [this]; omega
  | finish x =>
    have hx := held_facts r hi hl x hd
    simp only [step, hal, Bool.false_eq_true, if_false]
    split
    · exact ⟨hi, hl⟩
    · simp only [hx.1, if_true]
      have hpos : 0 < r.tokens := by rw [hi.tok]; exact List.length_pos_of_mem hx.1
      have hne : ¬ (r.tokens = 0) := by omega
      simp only [hne, if_false]
      have htok' : r.tokens - 1 = (r.table.erase x).length := by
        rw [List.length_erase_of_mem hx.1, hi.tok]
      have hnd' := hi.nodup.erase x
      have hcnt' : ∀ a, r.queue.count a + (r.held.erase x).count a = (r.table.erase x).count a := by
        intro a
        have := hl.cnt a
        by_cases ha : a = x
        · subst ha
          rw [List.count_erase_self, List.count_erase_self]; omega
        · rw [List.count_erase_of_ne ha, List.count_erase_of_ne ha]; exact this
      have hfresh' : ∀ y ∈ r.blockedIns, y ∉ r.table.erase x :=
        fun y hy hm => hl.parkedFresh y hy (List.mem_of_mem_erase hm)
      split
      · rename_i y rest hbl
        have hpk := hi.parked (by rw [hbl]; simp)
        have hynd : y ∉ rest ∧ rest.Nodup := by
          have := hl.parkedNodup; rw [hbl] at this; exact List.nodup_cons.mp this
        have := insertBody_full
          { r with table := r.table.erase x, tokens := r.tokens - 1, held := r.held.erase x, blockedIns := rest }
          y htok' hnd' (by simp only; omega) (by intro _; simp only; exact ⟨by omega, hpk.2⟩)
          ⟨hcnt', fun z hz => hfresh' z (by rw [hbl]; exact List.mem_cons_of_mem _ hz), hynd.2, by simpa using hal⟩
          (hfresh' y (by rw [hbl]; exact List.mem_cons_self)) hynd.1
        exact ⟨by simpa [hal] using this.1, by simpa [hal] using this.2.1⟩
      · rename_i hbl
        exact ⟨⟨htok', hnd', by simp only; omega, by simp [hbl]⟩, ⟨hcnt', by simp [hbl], by simp [hbl], by simpa using hal⟩⟩
  | freeze =>
    simp only [step, hal, Bool.false_eq_true, if_false]
    split
    · exact ⟨hi, hl⟩
    · exact ⟨⟨hi.tok, hi.nodup, hi.le, by simp⟩, ⟨hl.cnt, by simp, by simp, by simpa using hal⟩⟩
  | stop =>
    simp only [step, hal, Bool.false_eq_true, if_false]
    split
    · exact ⟨hi, hl⟩
    · exact ⟨inv_init, lin_init⟩
  | recv =>
    simp only [step, hal, Bool.false_eq_true, if_false]
    split
    · exact ⟨hi, hl⟩
    · split
      · rename_i y q hq
        refine ⟨⟨hi.tok, hi.nodup, hi.le, hi.parked⟩, ⟨?_, hl.parkedFresh, hl.parkedNodup, by simpa using hal⟩⟩
        intro a
        have := hl.cnt a
        rw [hq] at this
        simp only [List.count_cons, List.count_append, List.count_nil] at this ⊢
        omega
      · exact ⟨hi, hl⟩

/-- every op of the history satisfies the discipline at the state it is issued in -/
def DiscRun (F : Facts) : R → List Op → Prop
  | _, [] => True
  | r, o :: os => Disc r o ∧ DiscRun F (step F r o).1 os

instance decDiscRun (F : Facts) : (r : R) → (ops : List Op) → Decidable (DiscRun F r ops)
  | _, [] => isTrue trivial
  | r, o :: os =>
    have := decDiscRun F (step F r o).1 os
    inferInstanceAs (Decidable (Disc r o ∧ DiscRun F (step F r o).1 os))

theorem run_full (F : Facts) (hF : okTokens F = true) (r : R) (ops : List Op) (hi : Inv r) (hl : Lin r)
    (hd : DiscRun F r ops) : Inv (run F r ops) ∧ Lin (run F r ops) := by
  induction ops generalizing r with
  | nil => exact ⟨hi, hl⟩
  | cons o os ih =>
    have := step_full F hF r o hi hl hd.1
    exact ih _ this.1 this.2 hd.2

/-- a live, started reactor -/
def Live (r : R) : Prop := r.dead = false ∧ r.started = true

theorem feedback_unknown (F : Facts) (hF : okTokens F = true) (r : R) (x : Id) (hx : x ∉ r.table) :
    (step F r (.feedback x)).1 = r ∧ (step F r (.feedback x)).2.1 ≠ .ok := by
  simp only [okTokens, beq_iff_eq] at hF
  simp only [step]
  split
  · exact ⟨rfl, by simp⟩
  · split
    · exact ⟨rfl, by simp⟩
    · split
      · exact ⟨rfl, by simp⟩
      · simp [hx, hF]

theorem finish_unknown (F : Facts) (r : R) (x : Id) (hx : x ∉ r.table) :
    (step F r (.finish x)).1 = r ∧ (step F r (.finish x)).2.1 ≠ .ok := by
  simp only [step]
  split
  · exact ⟨rfl, by simp⟩
  · split
    · exact ⟨rfl, by simp⟩
    · simp [hx]

/-- after a successful finish the id is no longer tracked (unless the very same id was parked
as a waiting insert and has just been admitted) -/
theorem finish_removes (F : Facts) (r : R) (x : Id) (hi : Inv r) (hl : Live r) (hx : x ∈ r.table)
    (hp : r.blockedIns.head? ≠ some x) :
    (step F r (.finish x)).2.1 = .ok ∧ x ∉ (step F r (.finish x)).1.table := by
  have hpos : 0 < r.tokens := by rw [hi.tok]; exact List.length_pos_of_mem hx
  have hne : ¬ (r.tokens = 0) := by omega
  have hnot : x ∉ r.table.erase x := by
    intro h; exact (List.Nodup.mem_erase_iff hi.nodup).mp h |>.1 rfl
  simp only [step, hl.1, hl.2, Bool.false_eq_true, if_false, Bool.not_true, hx, if_true, hne]
  split
  · rename_i y rest hbl
    have hyx : y ≠ x := by
      intro h; apply hp; rw [hbl, h]; rfl
    refine ⟨rfl, ?_⟩
    unfold insertBody
    simp only
    split
    · exact hnot
    · split
      · simp only [List.mem_append, List.mem_singleton, not_or]; exact ⟨hnot, fun h => hyx h.symm⟩
      · simp only [List.mem_append, List.mem_singleton, not_or]; exact ⟨hnot, fun h => hyx h.symm⟩
  · exact ⟨rfl, hnot⟩

theorem frozen_insert (F : Facts) (hF : F.insertChecksClosedFirst = true) (r : R) (x : Id)
    (hfz : r.frozen = true) :
    (step F r (.insert x)).1 = r ∧ (step F r (.insert x)).2.1 ≠ .ok := by
  simp only [step]
  split
  · exact ⟨rfl, by simp⟩
  · split
    · exact ⟨rfl, by simp⟩
    · simp [hfz, hF]

theorem frozen_feedback (F : Facts) (hF : F.feedbackChecksClosedFirst = true) (r : R) (x : Id)
    (hfz : r.frozen = true) :
    (step F r (.feedback x)).1 = r ∧ (step F r (.feedback x)).2.1 ≠ .ok := by
  simp only [step]
  split
  · exact ⟨rfl, by simp⟩
  · split
    · exact ⟨rfl, by simp⟩
    · simp [hfz, hF]

/-- the consumer holding a seed can always feed it back: the call returns at once -/
theorem feedback_held (F : Facts) (r : R) (x : Id) (hi : Inv r) (hl : Lin r) (hx : x ∈ r.held) :
    (step F r (.feedback x)).2.1 ≠ .blocked ∧ (step F r (.feedback x)).1.dead = false := by
  have hf := held_facts r hi hl x hx
  have hlen := len_of_counts _ _ _ hl.cnt
  have hroom : r.room = true := by
    simp only [R.room, decide_eq_true_eq]; have := hi.tok; have := hi.le; omega
  have hal := hl.alive
  simp only [step, hal, Bool.false_eq_true, if_false]
  split
  · exact ⟨by simp, hal⟩
  · split
    · exact ⟨by simp, hal⟩
    · simp only [hf.1, not_true_eq_false, if_false, hroom, Bool.not_true, Bool.or_false, if_true]
      split
      · exact ⟨by simp, hal⟩
      · exact ⟨by simp, by simpa using hal⟩

/-- `n` receives on a live reactor deliver the first `n` queued seeds, in order -/
def recvN (F : Facts) (r : R) : Nat → R
  | 0 => r
  | n + 1 => recvN F (step F r .recv).1 n

theorem recv_reaches (F : Facts) (r : R) (hl : Live r) (pre post : List Id) (x : Id)
    (hq : r.queue = pre ++ x :: post) : x ∈ (recvN F r (pre.length + 1)).held := by
  induction pre generalizing r with
  | nil =>
    simp only [List.length_nil, Nat.zero_add, recvN, step, hl.1, hl.2, Bool.false_eq_true, if_false,
      Bool.not_true]
    simp only [List.nil_append] at hq
    rw [hq]; simp
  | cons p ps ih =>
    simp only [List.length_cons, recvN]
    have hstep : (step F r .recv).1 = { r with queue := ps ++ x :: post, held := r.held ++ [p] } := by
      simp only [step, hl.1, hl.2, Bool.false_eq_true, if_false, Bool.not_true]
      rw [hq]; simp
    rw [hstep]
    exact ih _ ⟨hl.1, hl.2⟩ rfl

/-- under discipline a tracked seed is either queued for delivery or held by the consumer -/
theorem tracked_somewhere (r : R) (hl : Lin r) (x : Id) (hx : x ∈ r.table) : x ∈ r.queue ∨ x ∈ r.held := by
  have h1 : 0 < r.table.count x := List.count_pos_iff.mpr hx
  have := hl.cnt x
  by_cases hq : 0 < r.queue.count x
  · left; exact List.count_pos_iff.mp hq
  · right; exact List.count_pos_iff.mp (by omega)

end Zeno.Model.Reactor
