import Zeno.Proofs.Stages
/-!
The asset-depth bound as an invariant of whole trees: every node that still has something pending in its subtree sits at
most three levels below the page (redirections not counted). `postprocess` — the only place where nodes are created —
preserves it when domains-crawl is off; so does `archive`. (Completion marking turns a finished `GotRedirected` node into
`Completed`, which shifts the labels of its — finished — descendants by one: that is why the invariant speaks about
subtrees with pending work only; nothing below a finished node is ever fetched again.)
-/
set_option linter.unusedSimpArgs false
namespace Zeno.Model.Stages
open Zeno Zeno.Model.Item

mutual
def _root_.Zeno.Model.Item.Tree.levelsOK (pdnr : Int) (isSeed : Bool) : Tree → Bool
  | .node i k => (!(i.st.pending || k.anyPending) || decide (nodeDnr isSeed i.st pdnr ≤ 3)) && k.levelsOK (nodeDnr isSeed i.st pdnr)
def _root_.Zeno.Model.Item.Forest.levelsOK (pdnr : Int) : Forest → Bool
  | .nil => true
  | .cons t f => t.levelsOK pdnr false && f.levelsOK pdnr
end

theorem nodeDnr_mono (s : Bool) (st : Status) (p p' : Int) (h : p' ≤ p) : nodeDnr s st p' ≤ nodeDnr s st p := by
  unfold nodeDnr
  split
  · split <;> omega
  · split <;> omega

mutual
theorem Tree.levelsOK_mono (p p' : Int) (h : p' ≤ p) (s : Bool) (t : Tree) (ht : t.levelsOK p s = true) : t.levelsOK p' s = true := by
  match t with
  | .node i k =>
    simp only [Tree.levelsOK, Bool.and_eq_true, Bool.or_eq_true, Bool.not_eq_true', decide_eq_true_eq] at ht ⊢
    have hm := nodeDnr_mono s i.st p p' h
    refine ⟨?_, Forest.levelsOK_mono _ _ hm k ht.2⟩
    rcases ht.1 with h1 | h1
    · exact Or.inl h1
    · exact Or.inr (by omega)
theorem Forest.levelsOK_mono (p p' : Int) (h : p' ≤ p) (f : Forest) (hf : f.levelsOK p = true) : f.levelsOK p' = true := by
  match f with
  | .nil => rfl
  | .cons t f =>
    simp only [Forest.levelsOK, Bool.and_eq_true] at hf ⊢
    exact ⟨Tree.levelsOK_mono p p' h false t hf.1, Forest.levelsOK_mono p p' h f hf.2⟩
end

theorem Forest.levelsOK_append (p : Int) (a b : Forest) : (a.append b).levelsOK p = (a.levelsOK p && b.levelsOK p) := by
  induction a using Forest.rec (motive_1 := fun _ => True) with
  | node => trivial
  | nil => simp [Forest.append, Forest.levelsOK]
  | cons t f _ ih => simp [Forest.append, Forest.levelsOK, ih, Bool.and_assoc]

theorem Forest.anyPending_append (a b : Forest) : (a.append b).anyPending = (a.anyPending || b.anyPending) := by
  induction a using Forest.rec (motive_1 := fun _ => True) with
  | node => trivial
  | nil => simp [Forest.append, Forest.anyPending]
  | cons t f _ ih => simp [Forest.append, Forest.anyPending, ih, Bool.or_assoc]

/-- a fresh leaf directly below a node with value `dnr` -/
theorem leaf_ok (c : Info) (hc : c.st = .fresh) (dnr : Int) (h : dnr + 1 ≤ 3) :
    (Forest.cons (Tree.node c .nil) .nil).levelsOK dnr = true := by
  simp only [Forest.levelsOK, Tree.levelsOK, Bool.and_true, Bool.or_eq_true, Bool.not_eq_true', decide_eq_true_eq]
  right
  simp only [nodeDnr, hc]
  simp; omega

theorem kids_ok (kids : List Info) (hk : ∀ c ∈ kids, c.st = .fresh) (dnr : Int) (h : dnr + 1 ≤ 3) (k : Forest) (hok : k.levelsOK dnr = true) :
    (kids.foldl (fun acc c => acc.append (.cons (.node c .nil) .nil)) k).levelsOK dnr = true := by
  induction kids generalizing k with
  | nil => exact hok
  | cons c cs ih =>
    simp only [List.foldl_cons]
    apply ih (fun x hx => hk x (List.mem_cons_of_mem _ hx))
    rw [Forest.levelsOK_append, hok, leaf_ok c (hk c (by simp)) dnr h]
    rfl

theorem nodeDnr_notRedirected (s : Bool) (st st' : Status) (p : Int) (h1 : st ≠ .gotRedirected) (h2 : st' ≠ .gotRedirected) :
    nodeDnr s st p = nodeDnr s st' p := by
  simp [nodeDnr, h1, h2]

theorem nodeDnr_redirected (s : Bool) (st : Status) (p : Int) (h1 : st ≠ .gotRedirected) :
    nodeDnr s .gotRedirected p + 1 = nodeDnr s st p ∧ nodeDnr false .fresh (nodeDnr s .gotRedirected p) = nodeDnr s st p := by
  cases s <;> simp [nodeDnr, h1]

mutual
/-- a subtree without pending work stays without pending work -/
theorem Tree.post_noPending (S : SF) (cfg : Cfg) (ex : String → Extract) (d lvl : Nat) (pdnr : Int) (isSeed : Bool) (t : Tree)
    (h : t.anyPending = false) : (t.post S cfg ex d lvl pdnr isSeed).1.anyPending = false := by
  match t with
  | .node i k =>
    simp only [Tree.anyPending, Bool.or_eq_false_iff] at h
    have hna : (i.st == Status.archived) = false := by
      cases hs : i.st <;> simp_all [Status.pending]
    unfold Tree.post
    split
    · simp only [hna, Bool.false_eq_true, if_false]
      show (Tree.node { i with body := false } k).anyPending = false
      simp only [Tree.anyPending, h.1, h.2, Bool.or_self]
    · have hk := Forest.post_noPending S cfg ex d (lvl + 1) (nodeDnr isSeed i.st pdnr) k h.2
      show ((match Forest.post S cfg ex d (lvl + 1) (nodeDnr isSeed i.st pdnr) k with
        | (k', outs) => ((Tree.node { i with body := false } k', outs) : Tree × List Outlink)).1).anyPending = false
      cases hp : Forest.post S cfg ex d (lvl + 1) (nodeDnr isSeed i.st pdnr) k with
      | mk k' outs =>
        rw [hp] at hk
        simp only at hk ⊢
        simp only [Tree.anyPending, h.1, hk, Bool.or_self]
theorem Forest.post_noPending (S : SF) (cfg : Cfg) (ex : String → Extract) (d lvl : Nat) (pdnr : Int) (f : Forest)
    (h : f.anyPending = false) : (f.post S cfg ex d lvl pdnr).1.anyPending = false := by
  match f with
  | .nil => simp [Forest.post, Forest.anyPending]
  | .cons t f =>
    simp only [Forest.anyPending, Bool.or_eq_false_iff] at h
    simp only [Forest.post, Forest.anyPending, Tree.post_noPending S cfg ex d lvl pdnr false t h.1,
      Forest.post_noPending S cfg ex d lvl pdnr f h.2, Bool.or_self]
end

mutual
/-- **`postprocess` keeps every subtree with pending work within three levels below the page** (domains-crawl off) -/
theorem Tree.post_levelsOK (S : SF) (hS : okPost S = true) (cfg : Cfg) (hdc : cfg.domainsCrawl = false) (ex : String → Extract)
    (d lvl : Nat) (pdnr : Int) (isSeed : Bool) (t : Tree) (h : t.levelsOK pdnr isSeed = true) :
    (t.post S cfg ex d lvl pdnr isSeed).1.levelsOK pdnr isSeed = true := by
  match t with
  | .node i k =>
    simp only [Tree.levelsOK, Bool.and_eq_true, Bool.or_eq_true, Bool.not_eq_true', decide_eq_true_eq] at h
    obtain ⟨h1, h2⟩ := h
    unfold Tree.post
    split
    · split
      · rename_i harch
        have hst : i.st = .archived := by simpa using harch
        have hpend : i.st.pending = true := by simp [hst, Status.pending]
        have hd3 : nodeDnr isSeed i.st pdnr ≤ 3 := by
          rcases h1 with h1 | h1
          · simp [hpend] at h1
          · exact h1
        have hnr : i.st ≠ .gotRedirected := by simp [hst]
        show ((match postAct S cfg ex i (nodeDnr isSeed i.st pdnr) with
            | PostAct.complete => _ | PostAct.redirect c => _ | PostAct.extract kids outs => _ : Tree × List Outlink).1).levelsOK pdnr isSeed = true
        split
        · -- completed: same value, same children
          have := nodeDnr_notRedirected isSeed .completed i.st pdnr (by simp) hnr
          simp only [Tree.levelsOK, this, h2, Bool.and_true, Bool.or_eq_true, Bool.not_eq_true', decide_eq_true_eq]
          exact Or.inr hd3
        · rename_i c hc
          obtain ⟨_, _, _, _, hfresh⟩ := redirect_child S hS cfg ex i _ c hc
          obtain ⟨e1, e2⟩ := nodeDnr_redirected isSeed i.st pdnr hnr
          simp only [Tree.levelsOK, Bool.and_eq_true, Bool.or_eq_true, Bool.not_eq_true', decide_eq_true_eq]
          refine ⟨Or.inr (by omega), ?_⟩
          rw [Forest.levelsOK_append, Forest.levelsOK_mono _ _ (by omega) k h2, Bool.true_and]
          exact leaf_ok c hfresh _ (by omega)
        · rename_i kids outs hc
          obtain ⟨hkids, _⟩ := extraction_hops S hS cfg ex i _ kids outs hc
          have hle : ¬ (2 < nodeDnr isSeed i.st pdnr) := by
            intro hd
            rcases no_extraction_beyond_depth S hS cfg ex i _ hdc hd with h' | ⟨c, h'⟩ <;> rw [hc] at h' <;> cases h'
          have hsame : ∀ st', st' = Status.completed ∨ st' = Status.gotChildren → nodeDnr isSeed st' pdnr = nodeDnr isSeed i.st pdnr := by
            intro st' hst'
            rcases hst' with rfl | rfl <;> exact nodeDnr_notRedirected isSeed _ i.st pdnr (by simp) hnr
          simp only [Tree.levelsOK, Bool.and_eq_true, Bool.or_eq_true, Bool.not_eq_true', decide_eq_true_eq]
          have hs' : ∀ (c : Prop) [Decidable c], nodeDnr isSeed (if c then Status.completed else Status.gotChildren) pdnr =
              nodeDnr isSeed i.st pdnr := by
            intro c _
            split
            · exact hsame _ (Or.inl rfl)
            · exact hsame _ (Or.inr rfl)
          refine ⟨Or.inr (by rw [hs' _]; exact hd3), ?_⟩
          rw [hs' _]
          exact kids_ok kids (fun c hc' => (hkids c hc').2.2) _ (by omega) k h2
      · show Tree.levelsOK pdnr isSeed (Tree.node { i with body := false } k) = true
        simp only [Tree.levelsOK, h2, Bool.and_true, Bool.or_eq_true, Bool.not_eq_true', decide_eq_true_eq]
        exact h1
    · -- above the working depth: statuses unchanged, recurse
      have hk := Forest.post_levelsOK S hS cfg hdc ex d (lvl + 1) (nodeDnr isSeed i.st pdnr) k h2
      have hnp := Forest.post_noPending S cfg ex d (lvl + 1) (nodeDnr isSeed i.st pdnr) k
      show Tree.levelsOK pdnr isSeed (match Forest.post S cfg ex d (lvl + 1) (nodeDnr isSeed i.st pdnr) k with
        | (k', outs) => ((Tree.node { i with body := false } k', outs) : Tree × List Outlink)).1 = true
      cases hp : Forest.post S cfg ex d (lvl + 1) (nodeDnr isSeed i.st pdnr) k with
      | mk k' outs =>
        rw [hp] at hk hnp
        simp only at hk hnp ⊢
        simp only [Tree.levelsOK, hk, Bool.and_true, Bool.or_eq_true, Bool.not_eq_true', decide_eq_true_eq]
        rcases h1 with h1 | h1
        · simp only [Bool.or_eq_false_iff] at h1
          exact Or.inl (by simp [h1.1, hnp h1.2])
        · exact Or.inr h1
theorem Forest.post_levelsOK (S : SF) (hS : okPost S = true) (cfg : Cfg) (hdc : cfg.domainsCrawl = false) (ex : String → Extract)
    (d lvl : Nat) (pdnr : Int) (f : Forest) (h : f.levelsOK pdnr = true) :
    (f.post S cfg ex d lvl pdnr).1.levelsOK pdnr = true := by
  match f with
  | .nil => simp [Forest.post, Forest.levelsOK]
  | .cons t f =>
    simp only [Forest.levelsOK, Bool.and_eq_true] at h
    simp only [Forest.post, Forest.levelsOK, Bool.and_eq_true]
    exact ⟨Tree.post_levelsOK S hS cfg hdc ex d lvl pdnr false t h.1, Forest.post_levelsOK S hS cfg hdc ex d lvl pdnr f h.2⟩
end

mutual
theorem Tree.archive_noPending (srv : String → Option Outcome) (d lvl : Nat) (t : Tree) (h : t.anyPending = false) :
    (t.archive srv d lvl).anyPending = false := by
  match t with
  | .node i k =>
    simp only [Tree.anyPending, Bool.or_eq_false_iff] at h
    have hnp : (i.st == Status.preProcessed) = false := by
      cases hs : i.st <;> simp_all [Status.pending]
    unfold Tree.archive
    split
    · simp only [hnp, Bool.false_eq_true, if_false, Tree.anyPending, h.1, h.2, Bool.or_self]
    · simp only [Tree.anyPending, h.1, Bool.false_or]
      exact Forest.archive_noPending srv d (lvl + 1) k h.2
theorem Forest.archive_noPending (srv : String → Option Outcome) (d lvl : Nat) (f : Forest) (h : f.anyPending = false) :
    (f.archive srv d lvl).anyPending = false := by
  match f with
  | .nil => simp [Forest.archive, Forest.anyPending]
  | .cons t f =>
    simp only [Forest.anyPending, Bool.or_eq_false_iff] at h
    simp only [Forest.archive, Forest.anyPending, Tree.archive_noPending srv d lvl t h.1, Forest.archive_noPending srv d lvl f h.2, Bool.or_self]
end

mutual
/-- `archive` (statuses PreProcessed → Archived / Failed, nothing created) keeps the invariant -/
theorem Tree.archive_levelsOK (srv : String → Option Outcome) (d lvl : Nat) (pdnr : Int) (isSeed : Bool) (t : Tree)
    (h : t.levelsOK pdnr isSeed = true) : (t.archive srv d lvl).levelsOK pdnr isSeed = true := by
  match t with
  | .node i k =>
    simp only [Tree.levelsOK, Bool.and_eq_true, Bool.or_eq_true, Bool.not_eq_true', decide_eq_true_eq] at h
    obtain ⟨h1, h2⟩ := h
    unfold Tree.archive
    split
    · split
      · rename_i hpp
        have hst : i.st = .preProcessed := by simpa using hpp
        have hd3 : nodeDnr isSeed i.st pdnr ≤ 3 := by
          rcases h1 with h1 | h1
          · simp [hst, Status.pending] at h1
          · exact h1
        have e1 : nodeDnr isSeed .failed pdnr = nodeDnr isSeed i.st pdnr := nodeDnr_notRedirected _ _ _ _ (by simp) (by simp [hst])
        have e2 : nodeDnr isSeed .archived pdnr = nodeDnr isSeed i.st pdnr := nodeDnr_notRedirected _ _ _ _ (by simp) (by simp [hst])
        split
        · split
          · simp only [Tree.levelsOK, e1, h2, Bool.and_true, Bool.or_eq_true, Bool.not_eq_true', decide_eq_true_eq]; exact Or.inr hd3
          · simp only [Tree.levelsOK, e2, h2, Bool.and_true, Bool.or_eq_true, Bool.not_eq_true', decide_eq_true_eq]; exact Or.inr hd3
        · simp only [Tree.levelsOK, e1, h2, Bool.and_true, Bool.or_eq_true, Bool.not_eq_true', decide_eq_true_eq]; exact Or.inr hd3
      · simp only [Tree.levelsOK, h2, Bool.and_true, Bool.or_eq_true, Bool.not_eq_true', decide_eq_true_eq]; exact h1
    · have hk := Forest.archive_levelsOK srv d (lvl + 1) (nodeDnr isSeed i.st pdnr) k h2
      simp only [Tree.levelsOK, hk, Bool.and_true, Bool.or_eq_true, Bool.not_eq_true', decide_eq_true_eq]
      rcases h1 with h1 | h1
      · simp only [Bool.or_eq_false_iff] at h1
        exact Or.inl (by simp [h1.1, Forest.archive_noPending srv d (lvl + 1) k h1.2])
      · exact Or.inr h1
theorem Forest.archive_levelsOK (srv : String → Option Outcome) (d lvl : Nat) (pdnr : Int) (f : Forest)
    (h : f.levelsOK pdnr = true) : (f.archive srv d lvl).levelsOK pdnr = true := by
  match f with
  | .nil => simp [Forest.archive, Forest.levelsOK]
  | .cons t f =>
    simp only [Forest.levelsOK, Bool.and_eq_true] at h
    simp only [Forest.archive, Forest.levelsOK, Bool.and_eq_true]
    exact ⟨Tree.archive_levelsOK srv d lvl pdnr false t h.1, Forest.archive_levelsOK srv d lvl pdnr f h.2⟩
end

/-- a seed on its own is within the bound -/
theorem seed_levelsOK (i : Info) : (Tree.node i .nil).levelsOK 0 true = true := by
  simp only [Tree.levelsOK, Forest.levelsOK, Bool.and_true, Bool.or_eq_true, Bool.not_eq_true', decide_eq_true_eq]
  right
  unfold nodeDnr
  simp only [if_true]
  split <;> omega

end Zeno.Model.Stages
