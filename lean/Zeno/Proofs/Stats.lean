import Zeno.Model.Stats
/-! Adds commute: a cell written only by atomic adds ends with initial value + all adds, under
every interleaving (core Lean only). -/
set_option linter.unusedSimpArgs false
namespace Zeno.Model.Stats
open Zeno

def pending (c : String) (ts : List Thread) : Nat := (ts.map (fun t => addsTo c t.code)).sum

def allAddOnly (c : String) (ts : List Thread) : Bool := ts.all (fun t => addOnly c t.code)

theorem sum_map_set {α} (f : α → Nat) (l : List α) (i : Nat) (a b : α) (h : l[i]? = some a) :
    ((l.set i b).map f).sum + f a = (l.map f).sum + f b := by
  induction l generalizing i with
  | nil => simp at h
  | cons x xs ih =>
    cases i with
    | zero =>
      simp at h; subst h
      simp [List.set]; omega
    | succ j =>
      simp at h
      have := ih j h
      simp only [List.set, List.map_cons, List.sum_cons]; omega

theorem all_set {α} (p : α → Bool) (l : List α) (i : Nat) (b : α) (hl : l.all p = true) (hb : p b = true) :
    (l.set i b).all p = true := by
  induction l generalizing i with
  | nil => simp
  | cons x xs ih =>
    simp only [List.all_cons, Bool.and_eq_true] at hl
    cases i with
    | zero => simp [List.set, hb, hl.2]
    | succ j => simp [List.set, hl.1, ih j hl.2]

theorem mem_of_getElem? {α} (l : List α) (i : Nat) (a : α) (h : l[i]? = some a) : a ∈ l := by
  rw [List.getElem?_eq_some_iff] at h
  obtain ⟨hi, rfl⟩ := h
  exact List.getElem_mem hi

/-- one step keeps `value + pending adds` (mod 2^64) and the add-only shape -/
theorem step_inv (c : String) (s : St) (i : Nat) (h : allAddOnly c s.threads = true) :
    ((step s i).cells c + pending c (step s i).threads) % M = (s.cells c + pending c s.threads) % M ∧
    allAddOnly c (step s i).threads = true := by
  unfold step
  cases hg : s.threads[i]? with
  | none => exact ⟨rfl, h⟩
  | some t =>
    obtain ⟨code, reg⟩ := t
    cases code with
    | nil => exact ⟨rfl, h⟩
    | cons ins rest =>
      simp only
      have hmem := mem_of_getElem? _ _ _ hg
      have hao : addOnly c (ins :: rest) = true := by
        simp only [allAddOnly, List.all_eq_true] at h
        exact h _ hmem
      simp only [addOnly, List.all_cons, Bool.and_eq_true] at hao
      have hrest : addOnly c rest = true := by simpa [addOnly] using hao.2
      have hset := sum_map_set (fun t => addsTo c t.code) s.threads i ⟨ins :: rest, reg⟩
        ⟨rest, (exec s.cells reg ins).2⟩ hg
      simp only [addsTo, List.map_cons, List.sum_cons] at hset
      refine ⟨?_, all_set _ _ _ _ h (by simpa using hrest)⟩
      simp only [pending, addsTo]
      -- what the instruction does to cell `c`
      by_cases hw : ins.writes c = true
      · have hadd : ins.isAddTo c = true := by
          have := hao.1; simp only [hw, Bool.not_true, Bool.false_or] at this; exact this
        cases ins with
        | add x v =>
          simp only [Instr.isAddTo, beq_iff_eq] at hadd
          subst hadd
          simp only [exec, Cells.upd, if_true, Instr.addTo, beq_self_eq_true] at hset ⊢
          have e1 : ((s.cells x + v) % M + (List.map (fun t => (List.map (Instr.addTo x) t.code).sum)
              (s.threads.set i { code := rest, reg := reg })).sum) % M
              = (s.cells x + v + (List.map (fun t => (List.map (Instr.addTo x) t.code).sum)
              (s.threads.set i { code := rest, reg := reg })).sum) % M := by
            rw [Nat.add_mod, Nat.mod_mod, ← Nat.add_mod]
          rw [e1]
          congr 1
          omega
        | _ => simp [Instr.isAddTo] at hadd
      · have hcell : (exec s.cells reg ins).1 c = s.cells c := by
          cases ins <;> simp_all [exec, Cells.upd, Instr.writes] <;> intro hx <;> simp_all
        have hzero : Instr.addTo c ins = 0 := by
          cases ins <;> simp_all [Instr.addTo, Instr.writes]
        rw [hcell]
        rw [hzero] at hset
        congr 1
        omega

theorem run_inv (c : String) (s : St) (sched : List Nat) (h : allAddOnly c s.threads = true) :
    ((run s sched).cells c + pending c (run s sched).threads) % M = (s.cells c + pending c s.threads) % M ∧
    allAddOnly c (run s sched).threads = true := by
  induction sched generalizing s with
  | nil => exact ⟨rfl, h⟩
  | cons i is ih =>
    have h1 := step_inv c s i h
    have h2 := ih (step s i) h1.2
    simp only [run, List.foldl_cons] at h2 ⊢
    exact ⟨h2.1.trans h1.1, h2.2⟩

theorem pending_finished (c : String) (ts : List Thread) (h : ts.all (fun t => t.code.isEmpty) = true) :
    pending c ts = 0 := by
  induction ts with
  | nil => rfl
  | cons t ts ih =>
    simp only [List.all_cons, Bool.and_eq_true, List.isEmpty_iff] at h
    simp only [pending, List.map_cons, List.sum_cons, h.1, addsTo, List.map_nil, List.sum_nil, Nat.zero_add]
    exact ih h.2

/-- **Adds commute.** If every write to cell `c` in every thread is an atomic add, then under every
schedule that runs all threads to completion the cell ends at its initial value plus the sum of all
adds (modulo 2^64) — no lost update, whatever the interleaving and the number of threads. -/
theorem add_only_exact (c : String) (s : St) (sched : List Nat) (h : allAddOnly c s.threads = true)
    (hf : (run s sched).finished = true) :
    (run s sched).cells c % M = (s.cells c + pending c s.threads) % M := by
  have := (run_inv c s sched h).1
  rw [pending_finished c _ hf, Nat.add_zero] at this
  exact this

/-- … and at *every* intermediate point the cell equals initial + the adds executed so far. -/
theorem add_only_progress (c : String) (s : St) (sched : List Nat) (h : allAddOnly c s.threads = true) :
    ((run s sched).cells c + pending c (run s sched).threads) % M = (s.cells c + pending c s.threads) % M :=
  (run_inv c s sched h).1

/-! ### from templates to instantiated code -/

def TInstr.writesT (c : String) : TInstr → Bool
  | .add x _ | .set x _ | .setLocal x | .swap x _ | .rawWrite x => x == c
  | _ => false

def TInstr.isAddT (c : String) : TInstr → Bool
  | .add x _ => x == c
  | _ => false

/-- template-level: every write to `c` is an atomic add -/
def addOnlyT (c : String) (prog : List TInstr) : Bool := prog.all (fun i => !TInstr.writesT c i || TInstr.isAddT c i)

/-- template-level: what the method adds to `c`, given its argument -/
def addsToT (c : String) (arg : Nat) (prog : List TInstr) : Nat :=
  (prog.map (fun i => match i with | .add x v => if x == c then v.eval arg else 0 | _ => 0)).sum

theorem addOnly_inst (c : String) (arg : Nat) (prog : List TInstr) (h : addOnlyT c prog = true) :
    addOnly c (inst arg prog) = true := by
  induction prog with
  | nil => rfl
  | cons i is ih =>
    simp only [addOnlyT, List.all_cons, Bool.and_eq_true] at h
    simp only [inst, List.map_cons, addOnly, List.all_cons, Bool.and_eq_true]
    refine ⟨?_, by simpa [addOnly, inst, addOnlyT] using ih (by simpa [addOnlyT] using h.2)⟩
    have := h.1
    cases i <;> simp_all [inst1, Instr.writes, Instr.isAddTo, TInstr.writesT, TInstr.isAddT]

theorem addsTo_inst (c : String) (arg : Nat) (prog : List TInstr) :
    addsTo c (inst arg prog) = addsToT c arg prog := by
  induction prog with
  | nil => rfl
  | cons i is ih =>
    simp only [addsTo, inst, List.map_cons, List.sum_cons, addsToT] at ih ⊢
    rw [ih]
    cases i <;> simp [inst1, Instr.addTo]

theorem addOnly_append (c : String) (a b : List Instr) : addOnly c (a ++ b) = (addOnly c a && addOnly c b) := by
  simp [addOnly, List.all_append]

theorem addsTo_append (c : String) (a b : List Instr) : addsTo c (a ++ b) = addsTo c a + addsTo c b := by
  simp [addsTo, List.map_append, List.sum_append]

theorem addOnly_flatMap {α} (c : String) (code : α → List Instr) (calls : List α)
    (h : ∀ x, addOnly c (code x) = true) : addOnly c (calls.flatMap code) = true := by
  induction calls with
  | nil => rfl
  | cons x xs ih => simp [List.flatMap_cons, addOnly_append, h x, ih]

theorem addsTo_flatMap {α} (c : String) (code : α → List Instr) (calls : List α) :
    addsTo c (calls.flatMap code) = (calls.map (fun x => addsTo c (code x))).sum := by
  induction calls with
  | nil => rfl
  | cons x xs ih => simp [List.flatMap_cons, addsTo_append, ih]

theorem allAddOnly_threadsOf {α} (c : String) (code : α → List Instr) (ws : List (List α))
    (h : ∀ x, addOnly c (code x) = true) : allAddOnly c (threadsOf code ws) = true := by
  simp only [allAddOnly, threadsOf, List.all_map, List.all_eq_true]
  intro calls _
  exact addOnly_flatMap c code calls h

theorem pending_threadsOf {α} (c : String) (code : α → List Instr) (ws : List (List α)) :
    pending c (threadsOf code ws) = (ws.map (fun calls => (calls.map (fun x => addsTo c (code x))).sum)).sum := by
  simp only [pending, threadsOf, List.map_map]
  congr 1
  apply List.map_congr_left
  intro calls _
  exact addsTo_flatMap c code calls

/-- generic corollary for call-level workloads -/
theorem calls_exact {α} (c : String) (code : α → List Instr) (ws : List (List α)) (init : Cells) (sched : List Nat)
    (h : ∀ x, addOnly c (code x) = true)
    (hf : (run { cells := init, threads := threadsOf code ws } sched).finished = true) :
    (run { cells := init, threads := threadsOf code ws } sched).cells c % M =
      (init c + (ws.map (fun calls => (calls.map (fun x => addsTo c (code x))).sum)).sum) % M := by
  have := add_only_exact c { cells := init, threads := threadsOf code ws } sched
    (allAddOnly_threadsOf c code ws h) hf
  rw [pending_threadsOf] at this
  exact this

end Zeno.Model.Stats
