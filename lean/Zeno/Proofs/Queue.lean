import Zeno.Model.Queue
/-! Queue plumbing lemmas (core Lean only). -/
set_option linter.unusedSimpArgs false
set_option linter.unusedVariables false
namespace Zeno.Model.Queue
open Zeno

def okHQ (F : Facts) : Bool :=
  F.hopLetter == "L" && F.pathToHopsCounts && F.hqProduceFields && F.hqProduceFlushOnSize && F.hqProduceFlushOnTick &&
  F.hqProduceRetriesForever && F.hqFinishById && F.hqFinishFlushOnSize && F.hqFinishFlushOnTick && F.hqFinishRetriesForever &&
  F.hqConsumeFields && F.finishNotifiesAfterMark && F.outlinkViaIsParentCanonical

def okLQ (F : Facts) : Bool :=
  F.lqProduceFields && F.lqConsumeFields && F.lqAddSkipsDuplicateValue && F.lqAddOneTransaction && F.lqGetClaimsInTransaction &&
  F.lqUniqueValueIndex && F.lqSqlStatuses && F.lqStopResetsTracked

/-! ### hops -/

theorem hops_roundtrip (F : Facts) (h : Nat) : pathToHops F (hopsToPath F h) = h := by
  simp [pathToHops, hopsToPath]

/-! ### batcher -/

theorem flatten_eraseIdx_count {α} [DecidableEq α] (l : List (List α)) (k : Nat) (batch : List α) (a : α)
    (h : l[k]? = some batch) : (l.eraseIdx k).flatten.count a + batch.count a = l.flatten.count a := by
  induction l generalizing k with
  | nil => simp at h
  | cons x xs ih =>
    cases k with
    | zero =>
      simp at h; subst h
      simp [List.eraseIdx, List.count_append]; omega
    | succ j =>
      simp at h
      have := ih j h
      simp [List.eraseIdx, List.count_append] at this ⊢; omega

theorem all_flush {α} (F : Facts) (b : Batcher α) : (flush F b).all = b.all := by
  unfold flush
  split
  · rfl
  · simp [Batcher.all, List.flatten_append]

/-- one step: with senders that retry for ever nothing is lost and nothing is invented -/
theorem bstep_count {α} [DecidableEq α] (F : Facts) (b : Batcher α) (op : BOp α) (a : α) :
    (bstep F true b op).all.count a = b.all.count a + (received [op]).count a := by
  cases op with
  | recv x =>
    simp only [bstep, received]
    split
    · rw [all_flush]; simp [Batcher.all, List.count_append, List.count_cons]; omega
    · simp [Batcher.all, List.count_append, List.count_cons]; omega
  | tick => simp [bstep, received, all_flush]
  | sendOk k =>
    simp only [bstep, received]
    split
    · rename_i batch hk
      have := flatten_eraseIdx_count b.inflight k batch a hk
      simp [Batcher.all, List.count_append, List.flatten_append] at this ⊢
      omega
    · simp
  | sendFail k => simp [bstep, received]

theorem received_append {α} (xs ys : List (BOp α)) : received (xs ++ ys) = received xs ++ received ys := by
  induction xs with
  | nil => rfl
  | cons x xs ih => cases x <;> simp [received, ih]

/-- **Conservation**: for every sequence of arrivals, timer ticks, accepted and refused sends (any
number of failures, any batch fill level), what arrived = delivered ⊎ in flight ⊎ being batched. -/
theorem conservation {α} [DecidableEq α] (F : Facts) (b : Batcher α) (ops : List (BOp α)) (a : α) :
    (brun F true b ops).all.count a = b.all.count a + (received ops).count a := by
  induction ops generalizing b with
  | nil => simp [brun, received]
  | cons op ops ih =>
    have h1 := bstep_count F b op a
    have h2 := ih (bstep F true b op)
    simp only [brun, List.foldl_cons] at h2 ⊢
    have h3 : received (op :: ops) = received [op] ++ received ops := by
      have := received_append [op] ops; simpa using this
    rw [h2, h1, h3, List.count_append]; omega

/-- a sender that gives up after a failure loses the batch: conservation fails (this is what the
fact `…RetriesForever` rules out) -/
theorem giveup_loses : (brun (α := Nat) F false { size := 1 } [.recv 7, .sendFail 0]).all = [] := by
  simp [brun, bstep, flush, Batcher.all]

/-- **Drains**: once failures stop, one tick plus one accepted send per in-flight batch leaves nothing pending -/
theorem drains {α} (F : Facts) (b : Batcher α) :
    let b' := brun F true b (BOp.tick :: List.replicate (b.inflight.length + 1) (BOp.sendOk 0))
    b'.batch = [] ∧ b'.inflight = [] := by
  have hdrain : ∀ (n : Nat) (c : Batcher α), c.batch = [] → c.inflight.length ≤ n →
      (brun F true c (List.replicate n (BOp.sendOk 0))).batch = [] ∧
      (brun F true c (List.replicate n (BOp.sendOk 0))).inflight = [] := by
    intro n
    induction n with
    | zero =>
      intro c hb hl
      exact ⟨by simpa [brun] using hb, by simpa [brun] using List.eq_nil_of_length_eq_zero (by omega)⟩
    | succ m ih =>
      intro c hb hl
      simp only [List.replicate_succ, brun, List.foldl_cons]
      cases hc : c.inflight with
      | nil =>
        have : bstep F true c (BOp.sendOk 0) = c := by simp [bstep, hc]
        rw [this]
        exact ih c hb (by rw [hc]; simp)
      | cons x xs =>
        have hs : bstep F true c (BOp.sendOk 0) = { c with inflight := xs, delivered := c.delivered ++ [x] } := by
          simp [bstep, hc]
        rw [hs]
        exact ih _ hb (by simp [hc] at hl ⊢; omega)
  simp only [brun, List.foldl_cons]
  have hf : (bstep F true b BOp.tick).batch = [] := by
    simp only [bstep, flush]; split
    · rename_i h; simpa using h
    · rfl
  have hl : (bstep F true b BOp.tick).inflight.length ≤ b.inflight.length + 1 := by
    simp only [bstep, flush]; split <;> simp
  exact hdrain _ _ hf hl

/-! ### local queue table -/

def ValuesNodup (tbl : List Row) : Prop := (tbl.map (·.value)).Nodup

theorem lqAdd_step_nodup (F : Facts) (t t' : List Row) (u : Row) (h : ValuesNodup t)
    (hs : (if t.any (·.value == u.value) then (if F.lqAddSkipsDuplicateValue then some t else none)
      else if t.any (·.id == u.id) then none
      else some (t ++ [{ u with status := .fresh }])) = some t') : ValuesNodup t' := by
  split at hs
  · split at hs
    · cases hs; exact h
    · cases hs
  · rename_i hv
    split at hs
    · cases hs
    ·
      cases hs
      unfold ValuesNodup at *
      rw [List.map_append, List.nodup_append]
      refine ⟨h, by simp, ?_⟩
      intro a ha b hb
      simp only [List.map_cons, List.map_nil, List.mem_singleton] at hb
      subst hb
      intro hab
      apply hv
      rw [List.mem_map] at ha
      obtain ⟨r, hr, hrv⟩ := ha
      rw [List.any_eq_true]
      exact ⟨r, hr, by simp [hrv, hab]⟩

/-- **A URL already waiting in the local queue is not queued twice**: whatever batches are added,
no two rows ever share a value. -/
theorem lqAdd_nodup (F : Facts) (tbl tbl' : List Row) (urls : List Row) (h : ValuesNodup tbl)
    (hs : lqAdd F tbl urls = some tbl') : ValuesNodup tbl' := by
  unfold lqAdd at hs
  induction urls generalizing tbl with
  | nil => simp [List.foldlM] at hs; subst hs; exact h
  | cons u us ih =>
    simp only [List.foldlM_cons, Option.bind_eq_bind] at hs
    cases hstep : (if tbl.any (·.value == u.value) then (if F.lqAddSkipsDuplicateValue then some tbl else none)
      else if tbl.any (·.id == u.id) then none
      else some (tbl ++ [{ u with status := .fresh }])) with
    | none => rw [hstep] at hs; simp at hs
    | some t1 =>
      rw [hstep] at hs
      simp only [Option.bind_some] at hs
      exact ih t1 (lqAdd_step_nodup F tbl t1 u h hstep) hs

theorem values_map_status (tbl : List Row) (f : Row → Row) (hf : ∀ r, (f r).value = r.value) :
    (tbl.map f).map (·.value) = tbl.map (·.value) := by
  simp [List.map_map, Function.comp_def, hf]

/-- claiming, deleting, resetting and re-opening keep values unique -/
theorem other_ops_nodup (F : Facts) (tbl : List Row) (h : ValuesNodup tbl) (n : Nat) (ids : List String) (id : String) :
    ValuesNodup (lqGet tbl n).1 ∧ ValuesNodup (lqDelete tbl ids) ∧ ValuesNodup (lqReset tbl id) ∧ ValuesNodup (lqInit F tbl) := by
  unfold ValuesNodup at *
  refine ⟨?_, ?_, ?_, ?_⟩
  · simp only [lqGet]
    rw [values_map_status _ _ (by intro r; split <;> rfl)]; exact h
  · exact (List.Sublist.map _ List.filter_sublist).nodup h
  · simp only [lqReset]
    rw [values_map_status _ _ (by intro r; split <;> rfl)]; exact h
  · simp only [lqInit]; split
    · rw [values_map_status _ _ (by intro r; rfl)]; exact h
    · exact h

/-- **Nothing stays stranded after a restart** (when `Init` hands claimed rows back): every row that was
not deleted is FRESH, hence claimable again, whatever happened before the stop or kill. -/
theorem restart_all_fresh (F : Facts) (h : F.lqInitReclaims = true) (tbl : List Row) :
    ∀ r ∈ lqInit F tbl, r.status = .fresh := by
  intro r hr
  simp only [lqInit, h, if_true, List.mem_map] at hr
  obtain ⟨r0, _, rfl⟩ := hr
  rfl

end Zeno.Model.Queue
