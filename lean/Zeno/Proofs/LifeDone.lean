import Zeno.Proofs.Life
/-!
The finisher lets a seed go only when its whole tree is done — proved here for the composition of the stage models
themselves (`Model/Life.lean`), not for trees assumed to be well shaped.

The extra invariant is the *working path*: with the frontier `r` levels down, every node that still has a descendant on
the frontier is GotChildren or GotRedirected (`wp`). It gives (i) the parent of every node `preprocess` looks at is
GotChildren / GotRedirected, so a rejected child is removed and never mistaken for a rejected seed, and (ii) completion
marking cannot complete a node above a Fresh frontier, so the finisher sends such a seed round again.
-/
set_option linter.unusedSimpArgs false
set_option linter.unusedVariables false
namespace Zeno.Model.Life
open Zeno Zeno.Model.Item Zeno.Model.Stages

def isPar (s : Status) : Bool := s == .gotChildren || s == .gotRedirected

mutual
def _root_.Zeno.Model.Item.Tree.wp (r : Nat) : Tree → Bool
  | .node i k => match r with
    | 0 => true
    | r' + 1 => (isPar i.st || (k.atLevel r').isEmpty) && k.wp r'
def _root_.Zeno.Model.Item.Forest.wp (r : Nat) : Forest → Bool
  | .nil => true
  | .cons t f => t.wp r && f.wp r
end

theorem Tree.wp_zero (t : Tree) : t.wp 0 = true := by match t with | .node i k => simp [Tree.wp]

theorem Forest.wp_zero (f : Forest) : f.wp 0 = true := by
  induction f using Forest.rec (motive_1 := fun _ => True) with
  | node => trivial
  | nil => rfl
  | cons t f _ ih => simp [Forest.wp, Tree.wp_zero, ih]

theorem Tree.wp_succ (i : Info) (k : Forest) (r : Nat) :
    (Tree.node i k).wp (r + 1) = ((isPar i.st || (k.atLevel r).isEmpty) && k.wp r) := by simp [Tree.wp]

/-! ### operations that keep the working path -/

mutual
theorem Tree.wp_setNorm (ks : List (String × NormRes)) (r : Nat) (t : Tree) : (t.setNorm ks).wp r = t.wp r := by
  match t, r with
  | .node i k, 0 => simp [Tree.setNorm, Tree.wp]
  | .node i k, r + 1 =>
    simp only [Tree.setNorm, Tree.wp_succ, Forest.wp_setNorm ks r k, Forest.atLevel_setNorm, List.isEmpty_map]
    cases List.lookup i.id ks <;> rfl
theorem Forest.wp_setNorm (ks : List (String × NormRes)) (r : Nat) (f : Forest) : (f.setNorm ks).wp r = f.wp r := by
  match f with
  | .nil => rfl
  | .cons t f => simp only [Forest.setNorm, Forest.wp, Tree.wp_setNorm ks r t, Forest.wp_setNorm ks r f]
end

theorem Forest.atLevel_prune_nil (rm : List String) (f : Forest) (n : Nat) (h : f.atLevel n = []) : (f.prune rm).atLevel n = [] := by
  apply List.eq_nil_iff_forall_not_mem.2
  intro j hj
  obtain ⟨i, hi, _, _⟩ := Forest.atLevel_prune rm f n j hj
  rw [h] at hi; cases hi

mutual
theorem Tree.wp_prune (rm : List String) (r : Nat) (t : Tree) (h : t.wp r = true) : (t.prune rm).wp r = true := by
  match t, r with
  | .node i k, 0 => simp [Tree.prune, Tree.wp]
  | .node i k, r + 1 =>
    simp only [Tree.prune, Tree.wp_succ, Bool.and_eq_true, Bool.or_eq_true, List.isEmpty_iff] at h ⊢
    refine ⟨?_, Forest.wp_prune rm r k h.2⟩
    rcases h.1 with h1 | h1
    · exact Or.inl h1
    · exact Or.inr (Forest.atLevel_prune_nil rm k r h1)
theorem Forest.wp_prune (rm : List String) (r : Nat) (f : Forest) (h : f.wp r = true) : (f.prune rm).wp r = true := by
  match f with
  | .nil => rfl
  | .cons t f =>
    simp only [Forest.wp, Bool.and_eq_true] at h
    simp only [Forest.prune]
    split
    · exact Forest.wp_prune rm r f h.2
    · simp only [Forest.wp, Bool.and_eq_true]
      exact ⟨Tree.wp_prune rm r t h.1, Forest.wp_prune rm r f h.2⟩
end

theorem Forest.atLevel_mark_nil_iff (F : IF) (f : Forest) (n : Nat) : (f.mark F).atLevel n = [] ↔ f.atLevel n = [] := by
  have h := Forest.atLevel_mark_ids F f n
  simp only [ids] at h
  constructor
  · intro h1; rw [h1] at h; simpa using h.symm
  · intro h1; rw [h1] at h; simpa using h

theorem isPar_hasWork (F : IF) (hF : okSets F = true) (s : Status) (h : isPar s = true) : hasWork F s = true := by
  rw [hasWork_eq F hF]
  cases s <;> simp_all [isPar]

mutual
/-- completion marking below a Fresh frontier: the working path stays, and a tree that reaches the frontier keeps work -/
theorem Tree.wp_mark (F : IF) (hF : okSets F = true) (r : Nat) (t : Tree) (hfr : ∀ i ∈ t.atLevel r, i.st = .fresh) (h : t.wp r = true) :
    (t.mark F).wp r = true ∧ (t.atLevel r ≠ [] → hasWork F (t.mark F).st = true) := by
  match t, r with
  | .node i k, 0 =>
    refine ⟨Tree.wp_zero _, fun _ => ?_⟩
    have hi : i.st = .fresh := hfr i (by simp [Tree.atLevel])
    have hnm : F.markableStatuses.contains i.st.name = false := by rw [markable_eq F hF, hi]; rfl
    simp only [Tree.mark, hnm, Bool.and_false, Bool.false_eq_true, if_false, Tree.st, Tree.info]
    rw [hasWork_eq F hF, hi]; rfl
  | .node i k, r + 1 =>
    simp only [Tree.wp_succ, Bool.and_eq_true, Bool.or_eq_true, List.isEmpty_iff] at h
    have hk := Forest.wp_mark F hF r k (fun j hj => hfr j (by simpa [Tree.atLevel] using hj)) h.2
    by_cases hne : k.atLevel r = []
    · -- no frontier below: whatever marking does to this node, the condition holds through the empty level
      refine ⟨?_, fun hh => absurd (by simpa [Tree.atLevel] using hne) hh⟩
      simp only [Tree.mark]
      split <;> simp only [Tree.wp_succ, Bool.and_eq_true, Bool.or_eq_true, List.isEmpty_iff] <;>
        exact ⟨Or.inr ((Forest.atLevel_mark_nil_iff F k r).2 hne), hk.1⟩
    · have hpar : isPar i.st = true := by
        rcases h.1 with h1 | h1
        · exact h1
        · exact absurd h1 hne
      have hnd : (k.mark F).allDone F = false := hk.2 hne
      simp only [Tree.mark, hnd, Bool.false_and, Bool.false_eq_true, if_false]
      refine ⟨?_, fun _ => isPar_hasWork F hF _ hpar⟩
      simp only [Tree.wp_succ, Bool.and_eq_true, Bool.or_eq_true]
      exact ⟨Or.inl hpar, hk.1⟩
theorem Forest.wp_mark (F : IF) (hF : okSets F = true) (r : Nat) (f : Forest) (hfr : ∀ i ∈ f.atLevel r, i.st = .fresh) (h : f.wp r = true) :
    (f.mark F).wp r = true ∧ (f.atLevel r ≠ [] → (f.mark F).allDone F = false) := by
  match f with
  | .nil => exact ⟨rfl, fun hh => absurd rfl hh⟩
  | .cons t f =>
    simp only [Forest.wp, Bool.and_eq_true] at h
    have ht := Tree.wp_mark F hF r t (fun j hj => hfr j (by simp [Forest.atLevel, hj])) h.1
    have hf := Forest.wp_mark F hF r f (fun j hj => hfr j (by simp [Forest.atLevel, hj])) h.2
    refine ⟨by simp only [Forest.mark, Forest.wp, ht.1, hf.1, Bool.and_self], fun hne => ?_⟩
    simp only [Forest.atLevel, ne_eq, List.append_eq_nil_iff] at hne
    simp only [Forest.mark, Forest.allDone, Bool.and_eq_false_iff, Bool.not_eq_false']
    by_cases h1 : t.atLevel r = []
    · exact Or.inr (hf.2 (fun h2 => hne ⟨h1, h2⟩))
    · exact Or.inl (ht.2 h1)
end

mutual
/-- statuses written by id leave the working path alone when none of the ids belongs to a node above the frontier -/
theorem Tree.wp_setStatuses (l : List String) (s : Status) (rq : Bool) (r : Nat) (t : Tree)
    (hno : ∀ n, n < r → ∀ i ∈ t.atLevel n, l.contains i.id = false) : (t.setStatuses l s rq).wp r = t.wp r := by
  match t, r with
  | .node i k, 0 => simp [Tree.setStatuses, Tree.wp]
  | .node i k, r + 1 =>
    have hi : l.contains i.id = false := hno 0 (by omega) i (by simp [Tree.atLevel])
    have hk := Forest.wp_setStatuses l s rq r k (fun n hn j hj => hno (n + 1) (by omega) j (by simpa [Tree.atLevel] using hj))
    simp only [Tree.setStatuses, hi, Bool.false_eq_true, if_false, Tree.wp_succ, hk, Forest.atLevel_setStatuses, List.isEmpty_map]
theorem Forest.wp_setStatuses (l : List String) (s : Status) (rq : Bool) (r : Nat) (f : Forest)
    (hno : ∀ n, n < r → ∀ i ∈ f.atLevel n, l.contains i.id = false) : (f.setStatuses l s rq).wp r = f.wp r := by
  match f with
  | .nil => rfl
  | .cons t f =>
    simp only [Forest.setStatuses, Forest.wp,
      Tree.wp_setStatuses l s rq r t (fun n hn j hj => hno n hn j (by simp [Forest.atLevel, hj])),
      Forest.wp_setStatuses l s rq r f (fun n hn j hj => hno n hn j (by simp [Forest.atLevel, hj]))]
end

mutual
theorem Tree.wp_archive (srv : String → Option Outcome) (w lvl r : Nat) (t : Tree) (hle : lvl + r ≤ w) :
    (t.archive srv w lvl).wp r = t.wp r := by
  match t, r with
  | .node i k, 0 => rw [Tree.wp_zero, Tree.wp_zero]
  | .node i k, r + 1 =>
    have hne : (lvl == w) = false := by simp; omega
    simp only [Tree.archive, hne, Bool.false_eq_true, if_false, Tree.wp_succ, Forest.wp_archive srv w (lvl + 1) r k (by omega),
      Forest.atLevel_archive, List.isEmpty_map]
theorem Forest.wp_archive (srv : String → Option Outcome) (w lvl r : Nat) (f : Forest) (hle : lvl + r ≤ w) :
    (f.archive srv w lvl).wp r = f.wp r := by
  match f with
  | .nil => rfl
  | .cons t f => simp only [Forest.archive, Forest.wp, Tree.wp_archive srv w lvl r t hle, Forest.wp_archive srv w lvl r f hle]
end


mutual
/-- postprocess moves the frontier one level down and keeps the working path -/
theorem Tree.wp_post (S : SF) (hS : okPost S = true) (cfg : Cfg) (ex : String → Extract) (d lvl r : Nat) (pdnr : Int) (isSeed : Bool)
    (t : Tree) (hr : lvl + r = d) (hemp : t.atLevel (r + 1) = []) (h : t.wp r = true) :
    (t.post S cfg ex d lvl pdnr isSeed).1.wp (r + 1) = true := by
  match t with
  | .node i k =>
    unfold Tree.post
    split
    · rename_i hld
      have hld' : lvl = d := by simpa using hld
      have hr0 : r = 0 := by omega
      subst hr0
      have hk : k = .nil := by
        simp only [Tree.atLevel] at hemp
        exact forest_atLevel_zero_nil k hemp
      subst hk
      split
      · show ((match postAct S cfg ex i (nodeDnr isSeed i.st pdnr) with
            | PostAct.complete => _ | PostAct.redirect c => _ | PostAct.extract kids outs => _ : Tree × List Outlink).1).wp 1 = true
        split
        · simp [Tree.wp, Forest.atLevel, Forest.wp]
        · simp [Tree.wp, isPar, Forest.wp_zero]
        · rename_i kids outs hc
          rw [foldl_append_leaves]
          simp only [Forest.append, Tree.wp_succ, Forest.wp_zero, Bool.and_true, leaves_atLevel_zero, Bool.or_eq_true]
          cases kids with
          | nil => exact Or.inr rfl
          | cons c cs => exact Or.inl (by simp [isPar])
      · simp [Tree.wp, Forest.atLevel, Forest.wp]
    · rename_i hld
      have hld' : lvl ≠ d := by simpa using hld
      obtain ⟨r', rfl⟩ : ∃ r', r = r' + 1 := ⟨r - 1, by omega⟩
      simp only [Tree.wp_succ, Bool.and_eq_true, Bool.or_eq_true, List.isEmpty_iff] at h
      have hemp' : k.atLevel (r' + 1) = [] := by simpa [Tree.atLevel] using hemp
      have hk := Forest.wp_post S hS cfg ex d (lvl + 1) r' (nodeDnr isSeed i.st pdnr) k (by omega) hemp' h.2
      have hfrom := Forest.atLevel_post S hS cfg ex d (lvl + 1) (nodeDnr isSeed i.st pdnr) k
        (by have : d + 1 - (lvl + 1) = r' + 1 := by omega
            rw [this]; exact hemp') (by omega) (r' + 1)
      show (match Forest.post S cfg ex d (lvl + 1) (nodeDnr isSeed i.st pdnr) k with
        | (k', outs) => ((Tree.node { i with body := false } k', outs) : Tree × List Outlink)).1.wp (r' + 1 + 1) = true
      cases hp : Forest.post S cfg ex d (lvl + 1) (nodeDnr isSeed i.st pdnr) k with
      | mk k' outs =>
        rw [hp] at hk hfrom
        simp only [Tree.wp_succ, Bool.and_eq_true, Bool.or_eq_true, List.isEmpty_iff]
        refine ⟨?_, hk⟩
        rcases h.1 with h1 | h1
        · exact Or.inl h1
        · refine Or.inr (List.eq_nil_iff_forall_not_mem.2 ?_)
          intro j hj
          rcases hfrom j hj with ⟨i', hi', _⟩ | ⟨_, _, m, hm, i', hi', _⟩
          · rw [hemp'] at hi'; cases hi'
          · have : m = r' := by omega
            subst this
            rw [h1] at hi'; cases hi'
theorem Forest.wp_post (S : SF) (hS : okPost S = true) (cfg : Cfg) (ex : String → Extract) (d lvl r : Nat) (pdnr : Int)
    (f : Forest) (hr : lvl + r = d) (hemp : f.atLevel (r + 1) = []) (h : f.wp r = true) :
    (f.post S cfg ex d lvl pdnr).1.wp (r + 1) = true := by
  match f with
  | .nil => simp [Forest.post, Forest.wp]
  | .cons t f =>
    simp only [Forest.wp, Bool.and_eq_true] at h
    simp only [Forest.atLevel, List.append_eq_nil_iff] at hemp
    simp only [Forest.post, Forest.wp, Bool.and_eq_true]
    exact ⟨Tree.wp_post S hS cfg ex d lvl r pdnr false t hr hemp.1 h.1, Forest.wp_post S hS cfg ex d lvl r pdnr f hr hemp.2 h.2⟩
end

/-! ### the parent the preprocessor sees -/

mutual
theorem Tree.parentStatus_mem (id : String) (t : Tree) (s : Status) (h : t.parentStatus id = some s) : id ∈ t.kids.idl := by
  match t with
  | .node i k =>
    simp only [Tree.parentStatus] at h
    exact Forest.parentStatusIn_mem i.st id k s h
theorem Forest.parentStatusIn_mem (p : Status) (id : String) (f : Forest) (s : Status) (h : f.parentStatusIn p id = some s) : id ∈ f.idl := by
  match f with
  | .nil => simp [Forest.parentStatusIn] at h
  | .cons t f =>
    simp only [Forest.parentStatusIn] at h
    rw [Forest.idl_cons, List.mem_append]
    split at h
    · rename_i heq
      left
      match t, heq with
      | .node i k, heq =>
        simp only [Tree.info, beq_iff_eq] at heq
        rw [Tree.idl_node, heq]; simp
    · split at h
      · rename_i s' hs'
        left
        have := Tree.parentStatus_mem id t s' hs'
        match t, this with
        | .node i k, this => rw [Tree.idl_node]; simp only [Tree.kids] at this; simp [this]
      · right; exact Forest.parentStatusIn_mem p id f s h
end

mutual
/-- with distinct ids and the working path, the parent status looked up for a frontier node is GotChildren or GotRedirected -/
theorem Tree.parentStatus_par (t : Tree) (hn : t.idl.Nodup) (r : Nat) (hw : t.wp (r + 1) = true) (j : Info) (hj : j ∈ t.atLevel (r + 1)) :
    ∃ s, t.parentStatus j.id = some s ∧ isPar s = true := by
  match t with
  | .node i k =>
    rw [Tree.idl_node, List.nodup_cons] at hn
    simp only [Tree.wp_succ, Bool.and_eq_true, Bool.or_eq_true, List.isEmpty_iff] at hw
    simp only [Tree.atLevel] at hj
    have hpar : isPar i.st = true := by
      rcases hw.1 with h1 | h1
      · exact h1
      · rw [h1] at hj; cases hj
    simp only [Tree.parentStatus]
    exact Forest.parentStatusIn_par i.st hpar k hn.2 r hw.2 j hj
theorem Forest.parentStatusIn_par (p : Status) (hp : isPar p = true) (f : Forest) (hn : f.idl.Nodup) (r : Nat) (hw : f.wp r = true)
    (j : Info) (hj : j ∈ f.atLevel r) : ∃ s, f.parentStatusIn p j.id = some s ∧ isPar s = true := by
  match f with
  | .nil => simp [Forest.atLevel] at hj
  | .cons t f =>
    rw [Forest.idl_cons, List.nodup_append] at hn
    obtain ⟨h1, h2, h3⟩ := hn
    simp only [Forest.wp, Bool.and_eq_true] at hw
    simp only [Forest.atLevel, List.mem_append] at hj
    simp only [Forest.parentStatusIn]
    split
    · exact ⟨p, rfl, hp⟩
    · rename_i hne
      rcases hj with hj | hj
      · -- the node is in this tree, below its root (the root has another id)
        cases r with
        | zero =>
          exfalso; apply hne
          match t, hj with
          | .node i0 k0, hj => simp only [Tree.atLevel, List.mem_singleton] at hj; simp [Tree.info, hj]
        | succ r' =>
          obtain ⟨s, hs, hps⟩ := Tree.parentStatus_par t h1 r' hw.1 j hj
          simp only [hs]
          exact ⟨s, rfl, hps⟩
      · -- the node is in a later tree: this one does not know its id
        have hnone : t.parentStatus j.id = none := by
          cases hps : t.parentStatus j.id with
          | none => rfl
          | some s =>
            exfalso
            have hm := Tree.parentStatus_mem j.id t s hps
            have hm' : j.id ∈ t.idl := by
              match t, hm with
              | .node i0 k0, hm => rw [Tree.idl_node]; simp only [Tree.kids] at hm; simp [hm]
            exact h3 _ hm' _ (mem_idl_of_atLevelF f r j hj) rfl
        simp only [hnone]
        exact Forest.parentStatusIn_par p hp f h2 r hw.2 j hj
end


/-! ### preprocess, again: nothing but the seed is ever taken for the seed -/

theorem verdict_child (cfg : Cfg) (norm : String → Option NormRes) (t : Tree) (i : Info) (hf : i.st = .fresh)
    (hp : ∃ s, t.parentStatus i.id = some s ∧ isPar s = true) :
    (∃ r, verdict cfg norm t i = .keep r) ∨ verdict cfg norm t i = .remove := by
  obtain ⟨s, hs, hps⟩ := hp
  have hcr : (some s == some Status.gotChildren || some s == some Status.gotRedirected) = true := by
    cases s <;> simp_all [isPar]
  cases hv : verdict cfg norm t i with
  | keep r => exact Or.inl ⟨r, rfl⟩
  | remove => exact Or.inr rfl
  | panic =>
    exfalso
    rcases verdict_fresh cfg norm t i hf with ⟨r, h⟩ | h | h | h <;> rw [hv] at h <;> cases h
  | stop st =>
    exfalso
    unfold verdict at hv
    simp only [hf, bne_self_eq_false, Bool.false_eq_true, if_false, hs] at hv
    split at hv
    · simp only [Option.isNone_some, Bool.false_eq_true, if_false] at hv; cases hv
    · split at hv
      · first | cases hv | (simp only [hcr, if_true] at hv; cases hv)
      · split at hv <;> cases hv

theorem scan_flag_none (cfg : Cfg) (norm : String → Option NormRes) (t : Tree) (items : List Info)
    (hf : ∀ i ∈ items, i.st = .fresh ∧ ∃ s, t.parentStatus i.id = some s ∧ isPar s = true) :
    (scan cfg norm t items).2.2 = none := by
  induction items with
  | nil => rfl
  | cons i rest ih =>
    have ih' := ih (fun j hj => hf j (by simp [hj]))
    rcases verdict_child cfg norm t i (hf i (by simp)).1 (hf i (by simp)).2 with ⟨r, hv⟩ | hv
    · simp only [scan, hv]; exact ih'
    · simp only [scan, hv]; exact ih'

/-- the seed is done and nothing in its tree is pending -/
def Done (t : Tree) : Prop := RootDone t ∧ t.anyPending = false

/-- between the stages, with the working path -/
def MidW (R d : Nat) (P : Status → Prop) (t : Tree) : Prop := Mid R d P t ∧ t.wp d = true

theorem setRoot_done' (t : Tree) (s : Status) (hs : s = .completed ∨ s = .failed)
    (h : ∀ n, ∀ i ∈ t.atLevel n, n ≠ 0 → i.st.pending = false) : Done (setRoot t s) := by
  refine ⟨setRoot_done t s hs, Tree.anyPending_of_levels _ ?_⟩
  intro n j hj
  obtain ⟨i, hi, hc⟩ := atLevel_setRoot t s n j hj
  rcases hc with ⟨_, hc⟩ | hc
  · rw [hc]; rcases hs with hs | hs <;> rw [hs] <;> rfl
  · subst hc
    cases n with
    | zero =>
      -- level 0 of `setRoot` is the relabelled root, handled above; this case is the same node
      match t, hj with
      | .node i0 k0, hj =>
        simp only [setRoot, Tree.atLevel, List.mem_singleton] at hj
        rw [hj]; rcases hs with hs | hs <;> rw [hs] <;> rfl
    | succ m => exact h _ j hi (by omega)

theorem midW_setNorm_prune {R d : Nat} {P : Status → Prop} {t : Tree} (ks : List (String × NormRes)) (rm : List String) (h : MidW R d P t) :
    MidW R d P ((t.setNorm ks).prune rm) :=
  ⟨mid_prune rm (mid_setNorm ks h.1), Tree.wp_prune rm d _ (by rw [Tree.wp_setNorm]; exact h.2)⟩

theorem midW_dedupe {R d : Nat} {t : Tree} (F : IF) (hF : okSets F = true) (h : MidW R d (· = .fresh) t) :
    MidW R d (· = .fresh) (dedupe F t) := by
  refine ⟨mid_dedupe F hF h.1, ?_⟩
  unfold dedupe
  have hp := mid_prune (dedupeRemoved F t.kids.flatten) h.1
  exact (Tree.wp_mark F hF d _ hp.lev (Tree.wp_prune _ d t h.2)).1

/-- ids that belong to nodes of level `d` do not occur above it -/
theorem ids_not_above {R d : Nat} {P : Status → Prop} {t : Tree} (h : Mid R d P t) (l : List String)
    (hl : ∀ x ∈ l, ∃ i ∈ t.atLevel d, i.id = x) : ∀ n, n < d → ∀ i ∈ t.atLevel n, l.contains i.id = false := by
  intro n hn i hi
  cases hc : l.contains i.id with
  | false => rfl
  | true =>
    exfalso
    obtain ⟨j, hj, hid⟩ := hl i.id (by simpa using hc)
    have := Tree.level_unique t h.ids n d i j hi hj hid.symm
    omega

theorem finalStep_specW {R d : Nat} {t2 : Tree} (sr : Seen × List String) (h : MidW R d (· = .fresh) t2)
    (hsr : ∀ x ∈ sr.2, ∃ i ∈ t2.atLevel d, i.id = x) :
    let c := finalStep t2 sr d
    let t' := if c.2.2.1.isEmpty then c.1 else c.1.setStatuses c.2.2.1 .preProcessed true
    Done t' ∨ (MidW R d (fun s => s = .preProcessed ∨ s = .seen) t' ∧ t'.atLevel d ≠ []) := by
  have h3 := mid_seen sr.2 h.1
  have hw3 : (t2.setStatuses sr.2 .seen false).wp d = true := by
    rw [Tree.wp_setStatuses _ _ _ d t2 (ids_not_above h.1 sr.2 hsr)]; exact h.2
  unfold finalStep
  simp only
  split
  · rename_i hemp
    simp only [List.isEmpty_nil, if_true]
    refine Or.inl (setRoot_done' _ _ (Or.inl rfl) ?_)
    intro n i hi _
    cases hp : i.st.pending with
    | false => rfl
    | true =>
      exfalso
      have hnd := h3.pend n i hi hp
      subst hnd
      have hfr : i.st = .fresh := by
        rcases h3.lev i hi with hs | hs
        · exact hs
        · rw [hs] at hp; cases hp
      have : i ∈ ((t2.setStatuses sr.2 .seen false).atLevel n).filter (fun i => i.st == .fresh) := by
        simp [List.mem_filter, hi, hfr]
      simp only [List.isEmpty_iff] at hemp
      rw [hemp] at this; cases this
  · rename_i hne
    refine Or.inr ?_
    have hne' : ((((t2.setStatuses sr.2 .seen false).atLevel d).filter (fun i => i.st == .fresh)).map (·.id)).isEmpty = false := by
      simpa using hne
    simp only [hne', Bool.false_eq_true, if_false]
    refine ⟨⟨mid_requests h3, ?_⟩, ?_⟩
    · rw [Tree.wp_setStatuses _ _ _ d _ (ids_not_above h3 _ ?_)]
      · exact hw3
      · intro x hx
        simp only [List.mem_map, List.mem_filter] at hx
        obtain ⟨i, ⟨hi, _⟩, rfl⟩ := hx
        exact ⟨i, hi, rfl⟩
    · rw [Tree.atLevel_setStatuses]
      intro hnil
      have : (t2.setStatuses sr.2 .seen false).atLevel d = [] := by simpa using hnil
      rw [this] at hne; simp at hne

theorem scStep_ids (t : Tree) (acc : Seen × List String) (i : Info) : ∀ x ∈ (scStep t acc i).2, x ∈ acc.2 ∨ x = i.id := by
  intro x hx
  unfold scStep at hx
  split at hx
  · exact Or.inl hx
  · split at hx
    · exact Or.inl hx
    · simp only [List.mem_cons] at hx
      rcases hx with hx | hx
      · exact Or.inr hx
      · exact Or.inl hx

theorem seencheck_ids (t : Tree) (items : List Info) (acc : Seen × List String) :
    ∀ x ∈ (items.foldl (scStep t) acc).2, x ∈ acc.2 ∨ ∃ i ∈ items, i.id = x := by
  induction items generalizing acc with
  | nil => intro x hx; exact Or.inl hx
  | cons i rest ih =>
    intro x hx
    simp only [List.foldl_cons] at hx
    rcases ih _ x hx with h | ⟨j, hj, hid⟩
    · rcases scStep_ids t acc i x h with h' | h'
      · exact Or.inl h'
      · exact Or.inr ⟨i, by simp, h'.symm⟩
    · exact Or.inr ⟨j, by simp [hj], hid⟩

theorem preTail_specW {R d : Nat} (S : SF) (hg : (S.preSeencheckGuard == "always") = false) (cfg : Cfg) (seen : Seen) {t2 : Tree}
    (h : MidW R d (· = .fresh) t2) :
    let c := preTail S cfg seen t2 d
    let t' := if c.2.2.1.isEmpty then c.1 else c.1.setStatuses c.2.2.1 .preProcessed true
    Done t' ∨ (MidW R d (fun s => s = .preProcessed ∨ s = .seen) t' ∧ t'.atLevel d ≠ []) := by
  unfold preTail
  simp only
  split
  · rename_i hemp
    simp only [List.isEmpty_nil, if_true]
    refine Or.inl (setRoot_done' _ _ (Or.inl rfl) ?_)
    intro n i hi _
    cases hp : i.st.pending with
    | false => rfl
    | true =>
      exfalso
      have hnd := h.1.pend n i hi hp
      subst hnd
      simp only [List.isEmpty_iff] at hemp
      rw [hemp] at hi; cases hi
  · split
    · refine finalStep_specW _ h ?_
      intro x hx
      unfold hqSeencheck at hx
      split at hx
      · cases hx
      · simp only [List.mem_map, List.mem_filter] at hx
        obtain ⟨i, ⟨hi, _⟩, rfl⟩ := hx
        exact ⟨i, hi, rfl⟩
    · simp only [hg, Bool.false_or]
      split
      · rename_i hc
        simp at hc
      · refine finalStep_specW _ h ?_
        intro x hx
        split at hx
        · rw [seencheck_eq] at hx
          rcases seencheck_ids t2 _ _ x hx with h' | h'
          · cases h'
          · exact h'
        · cases hx

/-- **preprocess, full strength.** From the start-of-pass shape with the working path: afterwards either the seed is done
*and nothing in its tree is pending*, or the working level is non-empty, all PreProcessed / Seen, nothing else pending, and
the working path is intact. -/
theorem pre_specW (S : SF) (I : IF) (hI : okSets I = true) (hg : (S.preSeencheckGuard == "always") = false) (cfg : Cfg)
    (norm : String → Option NormRes) (seen : Seen) {R d : Nat} {t : Tree} (h : Start R d t) (hw : t.wp d = true) :
    let p := preprocess S I cfg norm seen t
    Done p.1 ∨ (MidW R d (fun s => s = .preProcessed ∨ s = .seen) p.1 ∧ p.1.atLevel d ≠ []) := by
  have hm : MidW R d (· = .fresh) t := ⟨h.toMid, hw⟩
  have h1 := midW_setNorm_prune (scan cfg norm t (t.atLevel d)).2.1 (scan cfg norm t (t.atLevel d)).1 hm
  unfold preprocess preCore
  simp only [h.depth]
  cases d with
  | zero =>
    rcases scan_flag cfg norm t (t.atLevel 0) h.fresh with hf | hf | hf
    · simp only [hf]
      exact preTail_specW S hg cfg seen (midW_dedupe I hI h1)
    · simp only [hf, List.isEmpty_nil, if_true]
      exact Or.inl (setRoot_done' _ _ (Or.inr rfl) (fun n i hi hn => by
        cases hp : i.st.pending with
        | false => rfl
        | true => exact absurd (h1.1.pend n i hi hp) hn))
    · simp only [hf, List.isEmpty_nil, if_true]
      exact Or.inl (setRoot_done' _ _ (Or.inl rfl) (fun n i hi hn => by
        cases hp : i.st.pending with
        | false => rfl
        | true => exact absurd (h1.1.pend n i hi hp) hn))
  | succ d' =>
    have hf : (scan cfg norm t (t.atLevel (d' + 1))).2.2 = none :=
      scan_flag_none cfg norm t _ (fun i hi => ⟨h.fresh i hi, Tree.parentStatus_par t h.ids d' hw i hi⟩)
    simp only [hf]
    exact preTail_specW S hg cfg seen (midW_dedupe I hI h1)


/-! ### the rest of the pass -/

theorem done_archive (srv : String → Option Outcome) (t : Tree) (h : Done t) : Done (archive srv t) :=
  ⟨archive_rootDone srv t h.1, Tree.archive_noPending srv _ _ t h.2⟩

theorem done_post (S : SF) (cfg : Cfg) (ex : String → Extract) (t : Tree) (h : Done t) : Done (postprocess S cfg ex t).1 :=
  ⟨post_rootDone S cfg ex t h.1, Tree.post_noPending S cfg ex _ _ _ _ t h.2⟩

theorem done_fin (I : IF) (hI : okSets I = true) (t : Tree) (h : Done t) :
    (finisher I t).2 = .finish ∧ (finisher I t).1.anyPending = false := by
  refine ⟨fin_rootDone I hI t h.1, ?_⟩
  unfold finisher
  have hnf : (t.st == Status.fresh) = false := by rcases h.1 with h' | h' <;> rw [h'] <;> rfl
  have hnw : hasWork I t.st = false := by rw [hasWork_eq I hI]; rcases h.1 with h' | h' <;> rw [h'] <;> rfl
  simp only [hnf, Bool.false_eq_true, if_false, completeAndCheck, hnw, Bool.not_false, if_true]
  exact h.2

theorem arch_specW (srv : String → Option Outcome) {R d : Nat} {t : Tree}
    (h : MidW R d (fun s => s = .preProcessed ∨ s = .seen) t) (hne : t.atLevel d ≠ []) :
    MidW R d (fun s => s = .archived ∨ s = .failed ∨ s = .seen) (archive srv t) := by
  refine ⟨arch_spec srv h.1, ?_⟩
  have hmd : t.maxDepth = d := maxDepth_eq_of_levels t d hne h.1.top
  unfold archive
  rw [Tree.wp_archive srv _ 0 d t (by omega)]
  exact h.2

theorem post_specW (S : SF) (hS : okPost S = true) (cfg : Cfg) (hdc : cfg.domainsCrawl = false) (ex : String → Extract) {d : Nat} {t : Tree}
    (h : MidW cfg.maxRedirect d (fun s => s = .archived ∨ s = .failed ∨ s = .seen) t) (hne : t.atLevel d ≠ [])
    (hid : (postprocess S cfg ex t).1.idl.Nodup) :
    MidW cfg.maxRedirect (d + 1) (· = .fresh) (postprocess S cfg ex t).1 := by
  refine ⟨post_spec S hS cfg hdc ex h.1 hid, ?_⟩
  have hmd : t.maxDepth = d := maxDepth_eq_of_levels t d hne h.1.top
  unfold postprocess
  rw [hmd]
  exact Tree.wp_post S hS cfg ex d 0 d 0 true t (by omega) h.1.top h.2

/-- **finisher, full strength.** The seed is let go only with nothing pending in its tree; otherwise it goes round again,
one level deeper, in start-of-pass shape and with its working path. -/
theorem fin_specW (I : IF) (hI : okSets I = true) {R d : Nat} {t : Tree} (h : MidW R (d + 1) (· = .fresh) t) :
    ((finisher I t).2 = .finish ∧ (finisher I t).1.anyPending = false) ∨
    ((finisher I t).2 = .feedback ∧ Start R (d + 1) (finisher I t).1 ∧ (finisher I t).1.wp (d + 1) = true) := by
  obtain ⟨hm, hw⟩ := h
  have hroot : t.st.pending = false := by
    cases hp : t.st.pending with
    | false => rfl
    | true =>
      have := hm.pend 0 t.info (by rw [Tree.atLevel_zero]; simp) hp
      omega
  have hnf : (t.st == Status.fresh) = false := by
    cases hs : t.st <;> simp_all [Status.pending]
  by_cases hemp : t.atLevel (d + 1) = []
  · -- nothing on the new level: nothing pending at all
    have hnp : t.anyPending = false := by
      apply Tree.anyPending_of_levels
      intro n i hi
      cases hp : i.st.pending with
      | false => rfl
      | true =>
        have := hm.pend n i hi hp
        subst this
        rw [hemp] at hi; cases hi
    left
    unfold finisher
    simp only [hnf, Bool.false_eq_true, if_false]
    unfold completeAndCheck
    split
    · exact ⟨by simp, hnp⟩
    · have hd := Tree.mark_done I hI t hnp
      simp only [hd, Bool.not_false, if_true, true_and]
      rw [Tree.mark_pending I hI]; exact hnp
  · right
    obtain ⟨hwm, hwork⟩ := Tree.wp_mark I hI (d + 1) t hm.lev hw
    have hwk := hwork hemp
    have hrw : hasWork I t.st = true := by
      match t, hw, hemp with
      | .node i k, hw, hemp =>
        simp only [Tree.wp_succ, Bool.and_eq_true, Bool.or_eq_true, List.isEmpty_iff] at hw
        simp only [Tree.atLevel] at hemp
        rcases hw.1 with h1 | h1
        · exact isPar_hasWork I hI _ h1
        · exact absurd h1 hemp
    have hfin : finisher I t = (t.mark I, .feedback) := by
      unfold finisher
      simp only [hnf, Bool.false_eq_true, if_false]
      unfold completeAndCheck
      simp [hrw, hwk]
    rw [hfin]
    have hmm := mid_mark I hI hm (by intro s hs; subst hs; simp)
    have hne' : (t.mark I).atLevel (d + 1) ≠ [] := fun hh => hemp ((atLevel_mark_nil_iff I t _).1 hh)
    exact ⟨rfl, ⟨maxDepth_eq_of_levels _ _ hne' hmm.top, hmm.ids, hmm.pend, hmm.lev, hmm.rank⟩, hwm⟩

/-- **One pass, full strength**: no panic; the seed is let go only when nothing in its tree is pending; otherwise its tree is
exactly one level deeper and again in start-of-pass shape. -/
theorem pass_progressW (S : SF) (hS : okPost S = true) (hg : (S.preSeencheckGuard == "always") = false) (I : IF) (hI : okSets I = true)
    (cfg : Cfg) (hdc : cfg.domainsCrawl = false) (o : Oracle) (seen : Seen) {d : Nat} {t : Tree}
    (h : Start cfg.maxRedirect d t) (hw : t.wp d = true) (hid : passIds S I cfg o seen t = true) :
    ((pass S I cfg o seen t).act = .finish ∧ (pass S I cfg o seen t).tree.anyPending = false) ∨
    ((pass S I cfg o seen t).act = .feedback ∧ Start cfg.maxRedirect (d + 1) (pass S I cfg o seen t).tree ∧
      (pass S I cfg o seen t).tree.wp (d + 1) = true) := by
  have hc := pre_specW S I hI hg cfg o.norm seen h hw
  simp only [pass]
  rcases hc with hc | ⟨hc, hne⟩
  · exact Or.inl (done_fin I hI _ (done_post S cfg o.ex _ (done_archive o.srv _ hc)))
  · have ha := arch_specW o.srv hc hne
    have hne' : (archive o.srv (preprocess S I cfg o.norm seen t).1).atLevel d ≠ [] := by
      unfold archive
      rw [Tree.atLevel_archive]
      simpa using hne
    exact fin_specW I hI (post_specW S hS cfg hdc o.ex ha hne' (of_decide_eq_true hid))

/-- **The whole life, full strength**: the final tree — the one the finisher acknowledges — has nothing pending. -/
theorem life_done (S : SF) (hS : okPost S = true) (hg : (S.preSeencheckGuard == "always") = false) (I : IF) (hI : okSets I = true)
    (cfg : Cfg) (hdc : cfg.domainsCrawl = false) (os : List Oracle) :
    ∀ (seen : Seen) (d : Nat) (t : Tree), Start cfg.maxRedirect d t → t.wp d = true → idsOK S I cfg os seen t = true →
      ∀ t', (life S I cfg os seen t).2 = some t' → t'.anyPending = false := by
  induction os with
  | nil => intro seen d t _ _ _ t' ht'; simp [life] at ht'
  | cons o os ih =>
    intro seen d t h hw hids t' ht'
    simp only [idsOK, Bool.and_eq_true, Bool.or_eq_true, Bool.not_eq_true'] at hids
    have hc := pass_progressW S hS hg I hI cfg hdc o seen h hw hids.1
    simp only [life] at ht'
    rcases hc with ⟨hf, hnp⟩ | ⟨hf, hst, hw'⟩
    · simp only [hf] at ht'
      have : (pass S I cfg o seen t).tree = t' := by simpa using ht'
      rw [← this]; exact hnp
    · simp only [hf, beq_self_eq_true, if_true] at ht'
      have hids' : idsOK S I cfg os (pass S I cfg o seen t).seen (pass S I cfg o seen t).tree = true := by
        rcases hids.2 with h' | h'
        · rw [hf] at h'; cases h'
        · exact h'
      exact ih _ (d + 1) _ hst hw' hids' t' ht'

end Zeno.Model.Life
