import Zeno.Model.Life
import Zeno.Proofs.Depth
/-!
Every seed leaves the pipeline after a bounded number of passes (C06, and the liveness half of C01 at the
level of one seed): with domains-crawl off, a pass either ends with the finisher letting the seed go, or the
tree is exactly one level deeper than before — and no tree is ever deeper than `4 · max-redirect + 3`.

Invariant at the start of a pass (`Start d t`): the tree is `d` deep, all pending nodes sit on level `d` and
are Fresh, and the tree is *ranked*: along every path, a node either starts a new asset level (`redirects = 0`)
or continues a redirect chain (`redirects = parent + 1`), chains are at most `max-redirect` long, a redirected
parent has no asset child, and there are at most three asset levels.
-/
set_option linter.unusedSimpArgs false
set_option linter.unusedVariables false
namespace Zeno.Model.Life
open Zeno Zeno.Model.Item Zeno.Model.Stages

/-! ### levels and depth -/

theorem maxDepthKids_cons_lt (t : Tree) (f : Forest) (n : Nat) :
    (Forest.cons t f).maxDepthKids < n ↔ t.maxDepth < n ∧ (f = .nil ∨ f.maxDepthKids < n) := by
  have hm : (Forest.cons t f).maxDepthKids = max t.maxDepth f.maxDepthKids := by simp [Forest.maxDepthKids]
  rw [hm]
  cases f with
  | nil => simp [Forest.maxDepthKids]
  | cons t' f' => simp only [reduceCtorEq, false_or]; omega

mutual
theorem Tree.atLevel_nil_iff (t : Tree) (n : Nat) : t.atLevel n = [] ↔ t.maxDepth < n := by
  match t, n with
  | .node i k, 0 => simp [Tree.atLevel]
  | .node i k, n + 1 =>
    simp only [Tree.atLevel]
    rw [Forest.atLevel_nil_iff k n]
    cases k with
    | nil => simp [Tree.maxDepth]
    | cons t f => simp only [Tree.maxDepth, reduceCtorEq, false_or]; omega
theorem Forest.atLevel_nil_iff (f : Forest) (n : Nat) : f.atLevel n = [] ↔ (f = .nil ∨ f.maxDepthKids < n) := by
  match f with
  | .nil => simp [Forest.atLevel]
  | .cons t f =>
    simp only [Forest.atLevel, List.append_eq_nil_iff, reduceCtorEq, false_or]
    rw [Tree.atLevel_nil_iff t n, Forest.atLevel_nil_iff f n, maxDepthKids_cons_lt]
end

theorem Tree.atLevel_maxDepth_ne_nil (t : Tree) : t.atLevel t.maxDepth ≠ [] := by
  intro h
  have := (Tree.atLevel_nil_iff t t.maxDepth).1 h
  omega

/-- the depth of a tree is the last non-empty level -/
theorem maxDepth_eq_of_levels (t : Tree) (d : Nat) (h1 : t.atLevel d ≠ []) (h2 : t.atLevel (d + 1) = []) : t.maxDepth = d := by
  have a := (Tree.atLevel_nil_iff t (d + 1)).1 h2
  have b : ¬ t.maxDepth < d := fun hlt => h1 ((Tree.atLevel_nil_iff t d).2 hlt)
  omega

theorem atLevel_above_nil (t : Tree) (n : Nat) (h : t.maxDepth < n) : t.atLevel n = [] := (Tree.atLevel_nil_iff t n).2 h


/-! ### the rank of a tree: asset levels and redirect chains -/

/-- the asset level of a node from its parent's: the seed is level 0, a node with `redirects = 0` below it opens a
new level, a redirect target stays on its parent's level -/
def aLevel (pst : Option Status) (a : Nat) (i : Info) : Nat :=
  match pst with
  | none => 0
  | some _ => if i.redirects == 0 then a + 1 else a

theorem aLevel_some (p : Status) (a : Nat) (c : Info) : aLevel (some p) a c = if c.redirects == 0 then a + 1 else a := rfl

def rkNode (R : Nat) (a pr : Nat) (pst : Option Status) (i : Info) : Bool :=
  (pst.isNone || i.redirects == 0 || i.redirects == pr + 1) && !(pst == some Status.gotRedirected && i.redirects == 0) &&
    decide (i.redirects ≤ R) && decide (aLevel pst a i ≤ 3)

mutual
def _root_.Zeno.Model.Item.Tree.rk (R : Nat) (a pr : Nat) (pst : Option Status) : Tree → Bool
  | .node i k => rkNode R a pr pst i && k.rk R (aLevel pst a i) i.redirects i.st
def _root_.Zeno.Model.Item.Forest.rk (R : Nat) (a pr : Nat) (pst : Status) : Forest → Bool
  | .nil => true
  | .cons t f => t.rk R a pr (some pst) && f.rk R a pr pst
end

/-- how much deeper a tree can be below a node of asset level `a` that is `r` redirects into a chain -/
def room (R : Nat) (a r : Nat) : Nat :=
  (match a with | 0 => 3 * (R + 1) | 1 => 2 * (R + 1) | 2 => R + 1 | _ => 0) + (R - r)

theorem room_child (R a r : Nat) (pst : Status) (c : Info) (ha : a ≤ 3) (hr : r ≤ R)
    (h : rkNode R a r (some pst) c = true) : room R (aLevel (some pst) a c) c.redirects + 1 ≤ room R a r := by
  simp only [rkNode, Bool.and_eq_true, Bool.or_eq_true, Option.isNone_some, Bool.false_eq_true, false_or, beq_iff_eq,
    decide_eq_true_eq, aLevel] at h
  obtain ⟨⟨⟨h1, _⟩, h3⟩, h4⟩ := h
  simp only [aLevel, room]
  by_cases h0 : c.redirects = 0
  · simp only [h0, beq_self_eq_true, if_true] at h4 ⊢
    have : a = 0 ∨ a = 1 ∨ a = 2 := by omega
    rcases this with rfl | rfl | rfl <;> simp <;> omega
  · have hne : (c.redirects == 0) = false := by simpa using h0
    simp only [hne] at h4 ⊢
    have h1' : c.redirects = r + 1 := by rcases h1 with h | h; exact absurd h h0; exact h
    have : a = 0 ∨ a = 1 ∨ a = 2 ∨ a = 3 := by omega
    rcases this with rfl | rfl | rfl | rfl <;> simp <;> omega

mutual
theorem Tree.rk_depth (R a pr : Nat) (pst : Option Status) (t : Tree) (h : t.rk R a pr pst = true) :
    t.maxDepth ≤ room R (aLevel pst a t.info) t.info.redirects := by
  match t with
  | .node i k =>
    simp only [Tree.rk, Bool.and_eq_true] at h
    have hn := h.1
    simp only [rkNode, Bool.and_eq_true, decide_eq_true_eq] at hn
    have hk := Forest.rk_depth R (aLevel pst a i) i.redirects i.st k hn.2 hn.1.2 h.2
    simp only [Tree.info]
    cases k with
    | nil => simp [Tree.maxDepth]
    | cons c f =>
      simp only [Tree.maxDepth]
      rcases hk with hk | hk
      · cases hk
      · omega
theorem Forest.rk_depth (R a pr : Nat) (pst : Status) (f : Forest) (ha : a ≤ 3) (hr : pr ≤ R) (h : f.rk R a pr pst = true) :
    f = .nil ∨ f.maxDepthKids + 1 ≤ room R a pr := by
  match f with
  | .nil => exact Or.inl rfl
  | .cons t f =>
    refine Or.inr ?_
    simp only [Forest.rk, Bool.and_eq_true] at h
    have ht := Tree.rk_depth R a pr (some pst) t h.1
    have hf := Forest.rk_depth R a pr pst f ha hr h.2
    have hroom : room R (aLevel (some pst) a t.info) t.info.redirects + 1 ≤ room R a pr := by
      match t, h.1 with
      | .node c kc, h1 =>
        simp only [Tree.rk, Bool.and_eq_true] at h1
        exact room_child R a pr pst c ha hr h1.1
    have hm : (Forest.cons t f).maxDepthKids = max t.maxDepth f.maxDepthKids := by simp [Forest.maxDepthKids]
    rw [hm]
    rcases hf with hf | hf
    · subst hf; simp [Forest.maxDepthKids]; omega
    · omega
end

/-- **no ranked tree is deeper than `4 · R + 3`** -/
theorem rk_depth_bound (R : Nat) (t : Tree) (h : t.rk R 0 0 none = true) : t.maxDepth ≤ 4 * R + 3 := by
  have := Tree.rk_depth R 0 0 none t h
  simp only [aLevel, room] at this
  omega


/-! ### operations that keep a tree ranked -/

theorem rkNode_congr (R a pr : Nat) (pst : Option Status) (i i' : Info) (hr : i'.redirects = i.redirects) :
    rkNode R a pr pst i' = rkNode R a pr pst i ∧ aLevel pst a i' = aLevel pst a i := by
  simp only [rkNode, aLevel, hr]
  trivial

theorem Forest.rk_pst (R a pr : Nat) (p p' : Status) (f : Forest) (hp : p' = .gotRedirected → p = .gotRedirected)
    (h : f.rk R a pr p = true) : f.rk R a pr p' = true := by
  induction f using Forest.rec (motive_1 := fun _ => True) with
  | node => trivial
  | nil => rfl
  | cons t f _ ih =>
    simp only [Forest.rk, Bool.and_eq_true] at h ⊢
    refine ⟨?_, ih h.2⟩
    match t, h.1 with
    | .node c kc, h1 =>
      simp only [Tree.rk, Bool.and_eq_true] at h1 ⊢
      refine ⟨?_, by simpa [aLevel] using h1.2⟩
      have h0 := h1.1
      simp only [rkNode, Bool.and_eq_true, Bool.or_eq_true, Option.isNone_some, Bool.false_eq_true, false_or, beq_iff_eq,
        decide_eq_true_eq, aLevel, Bool.not_eq_true', Bool.and_eq_false_iff, Option.some.injEq] at h0 ⊢
      refine ⟨⟨⟨h0.1.1.1, ?_⟩, h0.1.2⟩, h0.2⟩
      rcases h0.1.1.2 with hh | hh
      · by_cases hq : p' = .gotRedirected
        · have := hp hq
          subst this
          simp at hh
        · exact Or.inl (by simpa using hq)
      · exact Or.inr hh

/-- one node relabelled (same redirect count, not newly GotRedirected), its children transformed by something that keeps them ranked -/
theorem rk_node_relabel (R a pr : Nat) (pst : Option Status) (i i' : Info) (k k' : Forest) (hr : i'.redirects = i.redirects)
    (hs : i'.st = .gotRedirected → i.st = .gotRedirected)
    (hk : k.rk R (aLevel pst a i) i.redirects i.st = true → k'.rk R (aLevel pst a i) i.redirects i.st = true)
    (h : (Tree.node i k).rk R a pr pst = true) : (Tree.node i' k').rk R a pr pst = true := by
  simp only [Tree.rk, Bool.and_eq_true] at h ⊢
  obtain ⟨e1, e2⟩ := rkNode_congr R a pr pst i i' hr
  rw [e1, e2, hr]
  exact ⟨h.1, Forest.rk_pst R _ _ i.st i'.st k' hs (hk h.2)⟩

mutual
theorem Tree.rk_setNorm (ks : List (String × NormRes)) (R a pr : Nat) (pst : Option Status) (t : Tree) (h : t.rk R a pr pst = true) :
    (t.setNorm ks).rk R a pr pst = true := by
  match t with
  | .node i k =>
    simp only [Tree.setNorm]
    refine rk_node_relabel R a pr pst i _ k _ ?_ ?_ (fun hp => Forest.rk_setNorm ks R _ _ _ k hp) h
    · cases List.lookup i.id ks <;> rfl
    · cases List.lookup i.id ks <;> exact id
theorem Forest.rk_setNorm (ks : List (String × NormRes)) (R a pr : Nat) (pst : Status) (f : Forest) (h : f.rk R a pr pst = true) :
    (f.setNorm ks).rk R a pr pst = true := by
  match f with
  | .nil => rfl
  | .cons t f =>
    simp only [Forest.rk, Bool.and_eq_true, Forest.setNorm] at h ⊢
    exact ⟨Tree.rk_setNorm ks R a pr _ t h.1, Forest.rk_setNorm ks R a pr pst f h.2⟩
end

mutual
theorem Tree.rk_setStatuses (l : List String) (s : Status) (rq : Bool) (hs : s ≠ .gotRedirected) (R a pr : Nat) (pst : Option Status)
    (t : Tree) (h : t.rk R a pr pst = true) : (t.setStatuses l s rq).rk R a pr pst = true := by
  match t with
  | .node i k =>
    simp only [Tree.setStatuses]
    refine rk_node_relabel R a pr pst i _ k _ ?_ ?_ (fun hp => Forest.rk_setStatuses l s rq hs R _ _ _ k hp) h
    · split <;> rfl
    · split
      · intro hh; exact absurd hh hs
      · exact id
theorem Forest.rk_setStatuses (l : List String) (s : Status) (rq : Bool) (hs : s ≠ .gotRedirected) (R a pr : Nat) (pst : Status)
    (f : Forest) (h : f.rk R a pr pst = true) : (f.setStatuses l s rq).rk R a pr pst = true := by
  match f with
  | .nil => rfl
  | .cons t f =>
    simp only [Forest.rk, Bool.and_eq_true, Forest.setStatuses] at h ⊢
    exact ⟨Tree.rk_setStatuses l s rq hs R a pr _ t h.1, Forest.rk_setStatuses l s rq hs R a pr pst f h.2⟩
end

mutual
theorem Tree.rk_prune (rm : List String) (R a pr : Nat) (pst : Option Status) (t : Tree) (h : t.rk R a pr pst = true) :
    (t.prune rm).rk R a pr pst = true := by
  match t with
  | .node i k =>
    simp only [Tree.prune]
    exact rk_node_relabel R a pr pst i i k _ rfl id (fun hp => Forest.rk_prune rm R _ _ _ k hp) h
theorem Forest.rk_prune (rm : List String) (R a pr : Nat) (pst : Status) (f : Forest) (h : f.rk R a pr pst = true) :
    (f.prune rm).rk R a pr pst = true := by
  match f with
  | .nil => rfl
  | .cons t f =>
    simp only [Forest.rk, Bool.and_eq_true] at h
    simp only [Forest.prune]
    split
    · exact Forest.rk_prune rm R a pr pst f h.2
    · simp only [Forest.rk, Bool.and_eq_true]
      exact ⟨Tree.rk_prune rm R a pr _ t h.1, Forest.rk_prune rm R a pr pst f h.2⟩
end

mutual
theorem Tree.rk_mark (F : IF) (R a pr : Nat) (pst : Option Status) (t : Tree) (h : t.rk R a pr pst = true) :
    (t.mark F).rk R a pr pst = true := by
  match t with
  | .node i k =>
    simp only [Tree.mark]
    split
    · exact rk_node_relabel R a pr pst i _ k _ rfl (by intro hh; cases hh) (fun hp => Forest.rk_mark F R _ _ _ k hp) h
    · exact rk_node_relabel R a pr pst i i k _ rfl id (fun hp => Forest.rk_mark F R _ _ _ k hp) h
theorem Forest.rk_mark (F : IF) (R a pr : Nat) (pst : Status) (f : Forest) (h : f.rk R a pr pst = true) :
    (f.mark F).rk R a pr pst = true := by
  match f with
  | .nil => rfl
  | .cons t f =>
    simp only [Forest.rk, Bool.and_eq_true, Forest.mark] at h ⊢
    exact ⟨Tree.rk_mark F R a pr _ t h.1, Forest.rk_mark F R a pr pst f h.2⟩
end

theorem rk_setRoot (R a pr : Nat) (pst : Option Status) (t : Tree) (s : Status) (hs : s ≠ .gotRedirected) (h : t.rk R a pr pst = true) :
    (setRoot t s).rk R a pr pst = true := by
  match t with
  | .node i k =>
    simp only [setRoot]
    exact rk_node_relabel R a pr pst i _ k k rfl (by intro hh; exact absurd hh hs) (fun hp => hp) h

mutual
theorem Tree.rk_archive (srv : String → Option Outcome) (d lvl : Nat) (R a pr : Nat) (pst : Option Status) (t : Tree)
    (h : t.rk R a pr pst = true) : (t.archive srv d lvl).rk R a pr pst = true := by
  match t with
  | .node i k =>
    simp only [Tree.archive]
    split
    · split
      · split
        · split
          · exact rk_node_relabel R a pr pst i _ k k rfl (by intro hh; cases hh) (fun hp => hp) h
          · exact rk_node_relabel R a pr pst i _ k k rfl (by intro hh; cases hh) (fun hp => hp) h
        · exact rk_node_relabel R a pr pst i _ k k rfl (by intro hh; cases hh) (fun hp => hp) h
      · exact h
    · exact rk_node_relabel R a pr pst i i k _ rfl id (fun hp => Forest.rk_archive srv d (lvl + 1) R _ _ _ k hp) h
theorem Forest.rk_archive (srv : String → Option Outcome) (d lvl : Nat) (R a pr : Nat) (pst : Status) (f : Forest)
    (h : f.rk R a pr pst = true) : (f.archive srv d lvl).rk R a pr pst = true := by
  match f with
  | .nil => rfl
  | .cons t f =>
    simp only [Forest.rk, Bool.and_eq_true, Forest.archive] at h ⊢
    exact ⟨Tree.rk_archive srv d lvl R a pr _ t h.1, Forest.rk_archive srv d lvl R a pr pst f h.2⟩
end


/-! ### new children -/

/-- a list of new leaf nodes as a forest -/
def leaves : List Info → Forest
  | [] => .nil
  | c :: cs => .cons (.node c .nil) (leaves cs)

theorem Forest.append_nil (f : Forest) : f.append .nil = f := by
  induction f using Forest.rec (motive_1 := fun _ => True) with
  | node => trivial
  | nil => rfl
  | cons t f _ ih => simp [Forest.append, ih]

theorem Forest.append_assoc (f g h : Forest) : (f.append g).append h = f.append (g.append h) := by
  induction f using Forest.rec (motive_1 := fun _ => True) with
  | node => trivial
  | nil => rfl
  | cons t f _ ih => simp [Forest.append, ih]

theorem foldl_append_leaves (kids : List Info) (f : Forest) :
    kids.foldl (fun acc c => acc.append (.cons (.node c .nil) .nil)) f = f.append (leaves kids) := by
  induction kids generalizing f with
  | nil => simp [leaves, Forest.append_nil]
  | cons c cs ih =>
    simp only [List.foldl_cons, ih, leaves, Forest.append_assoc]
    rfl

theorem Forest.atLevel_append (f g : Forest) (n : Nat) : (f.append g).atLevel n = f.atLevel n ++ g.atLevel n := by
  induction f using Forest.rec (motive_1 := fun _ => True) with
  | node => trivial
  | nil => simp [Forest.append, Forest.atLevel]
  | cons t f _ ih => simp [Forest.append, Forest.atLevel, ih]

theorem leaves_atLevel_zero (kids : List Info) : (leaves kids).atLevel 0 = kids := by
  induction kids with
  | nil => rfl
  | cons c cs ih => simp [leaves, Forest.atLevel, Tree.atLevel, ih]

theorem leaves_atLevel_succ (kids : List Info) (n : Nat) : (leaves kids).atLevel (n + 1) = [] := by
  induction kids with
  | nil => rfl
  | cons c cs ih => simp [leaves, Forest.atLevel, Tree.atLevel, ih]

theorem Forest.rk_append (R a pr : Nat) (p : Status) (f g : Forest) : (f.append g).rk R a pr p = (f.rk R a pr p && g.rk R a pr p) := by
  induction f using Forest.rec (motive_1 := fun _ => True) with
  | node => trivial
  | nil => simp [Forest.append, Forest.rk]
  | cons t f _ ih => simp [Forest.append, Forest.rk, ih, Bool.and_assoc]

theorem leaves_rk (R a pr : Nat) (p : Status) (kids : List Info) (h : ∀ c ∈ kids, rkNode R a pr (some p) c = true) :
    (leaves kids).rk R a pr p = true := by
  induction kids with
  | nil => rfl
  | cons c cs ih =>
    simp only [leaves, Forest.rk, Tree.rk, Bool.and_true, Bool.and_eq_true]
    exact ⟨h c (by simp), ih (fun c' hc' => h c' (by simp [hc']))⟩

theorem forest_atLevel_zero_nil (k : Forest) (h : k.atLevel 0 = []) : k = .nil := by
  cases k with
  | nil => rfl
  | cons t f =>
    match t with
    | .node i kk => simp [Forest.atLevel, Tree.atLevel] at h


/-! ### postprocess keeps the tree ranked (domains-crawl off) -/

theorem rk_node_intro (R a pr : Nat) (pst : Option Status) (i i' : Info) (k' : Forest) (hr : i'.redirects = i.redirects)
    (hn : rkNode R a pr pst i = true) (hk : k'.rk R (aLevel pst a i) i.redirects i'.st = true) :
    (Tree.node i' k').rk R a pr pst = true := by
  simp only [Tree.rk, Bool.and_eq_true]
  obtain ⟨e1, e2⟩ := rkNode_congr R a pr pst i i' hr
  rw [e1, e2, hr]
  exact ⟨hn, hk⟩

theorem ite_st_ne_gR (c : Prop) [Decidable c] : (if c then Status.completed else Status.gotChildren) ≠ .gotRedirected := by
  split <;> simp

mutual
theorem Tree.rk_post (S : SF) (hS : okPost S = true) (cfg : Cfg) (hdc : cfg.domainsCrawl = false) (ex : String → Extract)
    (d lvl : Nat) (pdnr : Int) (isSeed : Bool) (a pr : Nat) (pst : Option Status) (t : Tree)
    (hemp : t.atLevel (d + 1 - lvl) = []) (hl : lvl ≤ d)
    (hrel : (aLevel pst a t.info : Int) ≤ nodeDnr isSeed t.info.st pdnr + (if t.info.st = .gotRedirected then 1 else 0))
    (h : t.rk cfg.maxRedirect a pr pst = true) :
    (t.post S cfg ex d lvl pdnr isSeed).1.rk cfg.maxRedirect a pr pst = true := by
  match t with
  | .node i k =>
    simp only [Tree.info] at hrel
    unfold Tree.post
    split
    · rename_i hld
      have hld' : lvl = d := by simpa using hld
      have hk : k = .nil := by
        have : d + 1 - lvl = 1 := by omega
        rw [this] at hemp
        simp only [Tree.atLevel] at hemp
        exact forest_atLevel_zero_nil k hemp
      subst hk
      split
      · rename_i harch
        have hst : i.st = .archived := by simpa using harch
        have hnode : rkNode cfg.maxRedirect a pr pst i = true := by
          simp only [Tree.rk, Bool.and_eq_true] at h; exact h.1
        have hnode' := hnode
        simp only [rkNode, Bool.and_eq_true, decide_eq_true_eq] at hnode'
        have hrel' : (aLevel pst a i : Int) ≤ nodeDnr isSeed i.st pdnr := by
          simp only [hst, reduceCtorEq, if_false] at hrel; rw [hst]; omega
        show ((match postAct S cfg ex i (nodeDnr isSeed i.st pdnr) with
            | PostAct.complete => _ | PostAct.redirect c => _ | PostAct.extract kids outs => _ : Tree × List Outlink).1).rk cfg.maxRedirect a pr pst = true
        split
        · exact rk_node_relabel _ a pr pst i _ .nil .nil rfl (by intro hh; cases hh) (fun hp => hp) h
        · rename_i c hc
          obtain ⟨_, hc2, hc3, _, _⟩ := redirect_child S hS cfg ex i _ c hc
          refine rk_node_intro cfg.maxRedirect a pr pst i { i with st := .gotRedirected, body := false } _ rfl hnode ?_
          simp only [Forest.append, Forest.rk, Tree.rk, Bool.and_true]
          have hne : (c.redirects == 0) = false := by simp [hc2]
          simp only [rkNode, aLevel_some, hne, Bool.and_eq_true, Bool.or_eq_true, Option.isNone_some, beq_iff_eq,
            Bool.and_false, Bool.not_false, decide_eq_true_eq, Bool.false_eq_true, if_false, false_or, and_true]
          exact ⟨⟨hc2, hc3⟩, hnode'.2⟩
        · rename_i kids outs hc
          obtain ⟨hkids, _⟩ := extraction_hops S hS cfg ex i _ kids outs hc
          rw [foldl_append_leaves]
          simp only [Forest.append]
          refine rk_node_intro cfg.maxRedirect a pr pst i
            { i with st := (if (kids.isEmpty && Forest.nil.length == 0) = true then Status.completed else Status.gotChildren), body := false } _ rfl hnode ?_
          apply leaves_rk
          intro c hcm
          obtain ⟨_, hr0, _⟩ := hkids c hcm
          have hle : ¬ (2 < nodeDnr isSeed i.st pdnr) := by
            intro hd
            rcases no_extraction_beyond_depth S hS cfg ex i _ hdc hd with h' | ⟨c', h'⟩ <;> rw [hc] at h' <;> cases h'
          have hg := ite_st_ne_gR ((kids.isEmpty && Forest.nil.length == 0) = true)
          have h0 : (c.redirects == 0) = true := by simp [hr0]
          simp only [rkNode, aLevel_some, h0, Bool.or_true, Bool.true_and, Bool.and_true, Bool.and_eq_true,
            decide_eq_true_eq, if_true, Bool.not_eq_true', beq_eq_false_iff_ne, ne_eq, Option.some.injEq]
          refine ⟨⟨⟨by simp, ?_⟩, by omega⟩, by omega⟩
          split <;> simp
      · exact rk_node_relabel _ a pr pst i _ .nil .nil rfl id (fun hp => hp) h
    · rename_i hld
      have hld' : lvl ≠ d := by simpa using hld
      have hemp' : k.atLevel (d + 1 - (lvl + 1)) = [] := by
        have : d + 1 - lvl = (d + 1 - (lvl + 1)) + 1 := by omega
        rw [this] at hemp
        simpa [Tree.atLevel] using hemp
      have hk : k.rk cfg.maxRedirect (aLevel pst a i) i.redirects i.st = true →
          (k.post S cfg ex d (lvl + 1) (nodeDnr isSeed i.st pdnr)).1.rk cfg.maxRedirect (aLevel pst a i) i.redirects i.st = true :=
        fun hp => Forest.rk_post S hS cfg hdc ex d (lvl + 1) _ _ _ _ k hemp' (by omega) hrel hp
      show (match Forest.post S cfg ex d (lvl + 1) (nodeDnr isSeed i.st pdnr) k with
        | (k', outs) => ((Tree.node { i with body := false } k', outs) : Tree × List Outlink)).1.rk cfg.maxRedirect a pr pst = true
      cases hp : Forest.post S cfg ex d (lvl + 1) (nodeDnr isSeed i.st pdnr) k with
      | mk k' outs =>
        rw [hp] at hk
        exact rk_node_relabel _ a pr pst i _ k k' rfl id hk h
theorem Forest.rk_post (S : SF) (hS : okPost S = true) (cfg : Cfg) (hdc : cfg.domainsCrawl = false) (ex : String → Extract)
    (d lvl : Nat) (pdnr : Int) (a pr : Nat) (pst : Status) (f : Forest)
    (hemp : f.atLevel (d + 1 - lvl) = []) (hl : lvl ≤ d)
    (hrel : (a : Int) ≤ pdnr + (if pst = .gotRedirected then 1 else 0))
    (h : f.rk cfg.maxRedirect a pr pst = true) :
    (f.post S cfg ex d lvl pdnr).1.rk cfg.maxRedirect a pr pst = true := by
  match f with
  | .nil => simp [Forest.post, Forest.rk]
  | .cons t f =>
    simp only [Forest.rk, Bool.and_eq_true] at h
    simp only [Forest.atLevel, List.append_eq_nil_iff] at hemp
    simp only [Forest.post, Forest.rk, Bool.and_eq_true]
    refine ⟨Tree.rk_post S hS cfg hdc ex d lvl pdnr false a pr (some pst) t hemp.1 hl ?_ h.1,
      Forest.rk_post S hS cfg hdc ex d lvl pdnr a pr pst f hemp.2 hl hrel h.2⟩
    match t, h.1 with
    | .node c kc, h1 =>
      simp only [Tree.rk, Bool.and_eq_true] at h1
      have hn := h1.1
      simp only [rkNode, Bool.and_eq_true, Bool.not_eq_true', Bool.and_eq_false_iff, beq_eq_false_iff_ne, ne_eq,
        Option.some.injEq] at hn
      simp only [Tree.info, aLevel_some, nodeDnr, Bool.false_eq_true, if_false]
      by_cases hg : pst = .gotRedirected
      · have hr0 : (c.redirects == 0) = false := by
          rcases hn.1.1.2 with hh | hh
          · exact absurd hg hh
          · simpa using hh
        simp only [hg, if_true] at hrel
        simp only [hr0, Bool.false_eq_true, if_false]
        by_cases hcs : c.st = .gotRedirected <;> simp [hcs] <;> omega
      · simp only [hg, if_false] at hrel
        by_cases hcs : c.st = .gotRedirected <;> by_cases hc0 : c.redirects = 0 <;> simp [hcs, hc0] <;> omega
end


/-! ### what each operation does to the levels of a tree -/

theorem Tree.atLevel_prune_all (rm : List String) (t : Tree) (n : Nat) : ∀ j ∈ (t.prune rm).atLevel n, j ∈ t.atLevel n := by
  intro j hj
  cases n with
  | zero => match t with | .node i k => simpa [Tree.prune, Tree.atLevel] using hj
  | succ m =>
    obtain ⟨i, hi, h1, _⟩ := Tree.atLevel_prune rm t m j hj
    exact h1 ▸ hi

mutual
theorem Tree.atLevel_mark (F : IF) (hF : okSets F = true) (t : Tree) (n : Nat) :
    ∀ j ∈ (t.mark F).atLevel n, ∃ i ∈ t.atLevel n,
      j.st = i.st ∨ (j.st = .completed ∧ (i.st = .gotChildren ∨ i.st = .gotRedirected)) := by
  match t, n with
  | .node i k, 0 =>
    intro j hj
    simp only [Tree.mark] at hj
    split at hj
    · rename_i hc
      have hm : (i.st == .gotChildren || i.st == .gotRedirected) = true := by
        rw [← markable_eq F hF]; exact (Bool.and_eq_true _ _ ▸ hc).2
      simp only [Tree.atLevel, List.mem_singleton] at hj
      refine ⟨i, by simp [Tree.atLevel], Or.inr ⟨by rw [hj], ?_⟩⟩
      simpa using hm
    · simp only [Tree.atLevel, List.mem_singleton] at hj
      exact ⟨i, by simp [Tree.atLevel], Or.inl (by rw [hj])⟩
  | .node i k, n + 1 =>
    intro j hj
    have hj' : j ∈ (k.mark F).atLevel n := by
      simp only [Tree.mark] at hj
      split at hj <;> simpa [Tree.atLevel] using hj
    simpa [Tree.atLevel] using Forest.atLevel_mark F hF k n j hj'
theorem Forest.atLevel_mark (F : IF) (hF : okSets F = true) (f : Forest) (n : Nat) :
    ∀ j ∈ (f.mark F).atLevel n, ∃ i ∈ f.atLevel n,
      j.st = i.st ∨ (j.st = .completed ∧ (i.st = .gotChildren ∨ i.st = .gotRedirected)) := by
  match f with
  | .nil => intro j hj; simp [Forest.mark, Forest.atLevel] at hj
  | .cons t f =>
    intro j hj
    simp only [Forest.mark, Forest.atLevel, List.mem_append] at hj ⊢
    rcases hj with hj | hj
    · obtain ⟨i, hi, h⟩ := Tree.atLevel_mark F hF t n j hj
      exact ⟨i, Or.inl hi, h⟩
    · obtain ⟨i, hi, h⟩ := Forest.atLevel_mark F hF f n j hj
      exact ⟨i, Or.inr hi, h⟩
end

theorem atLevel_mark_nil_iff (F : IF) (t : Tree) (n : Nat) : (t.mark F).atLevel n = [] ↔ t.atLevel n = [] := by
  have h := Tree.atLevel_mark_ids F t n
  simp only [ids] at h
  constructor
  · intro h1; rw [h1] at h; simpa using h.symm
  · intro h1; rw [h1] at h; simpa using h

theorem atLevel_setRoot (t : Tree) (s : Status) (n : Nat) :
    ∀ j ∈ (setRoot t s).atLevel n, ∃ i ∈ t.atLevel n, (n = 0 ∧ j.st = s) ∨ j = i := by
  match t, n with
  | .node i k, 0 =>
    intro j hj
    simp only [setRoot, Tree.atLevel, List.mem_singleton] at hj
    exact ⟨i, by simp [Tree.atLevel], Or.inl ⟨rfl, by rw [hj]⟩⟩
  | .node i k, n + 1 =>
    intro j hj
    exact ⟨j, by simpa [setRoot, Tree.atLevel] using hj, Or.inr rfl⟩

/-- what `archive` leaves on a node of the working level -/
def archInfo (srv : String → Option Outcome) (b : Bool) (i : Info) : Info :=
  if b && i.st == .preProcessed then
    match srv i.id with
    | some o => if o.fail then { i with st := .failed }
                else { i with st := .archived, resp := o.status, loc := o.loc, html := o.html, body := o.body }
    | none => { i with st := .failed }
  else i

theorem archInfo_false (srv : String → Option Outcome) (i : Info) : archInfo srv false i = i := by simp [archInfo]

mutual
theorem Tree.atLevel_archive (srv : String → Option Outcome) (d lvl : Nat) (t : Tree) (n : Nat) :
    (t.archive srv d lvl).atLevel n = (t.atLevel n).map (archInfo srv (lvl + n == d)) := by
  match t, n with
  | .node i k, 0 =>
    by_cases h : (lvl == d) = true
    · by_cases hp : (i.st == Status.preProcessed) = true
      · cases hs : srv i.id with
        | none => simp [Tree.archive, Tree.atLevel, archInfo, h, hp, hs]
        | some o =>
          by_cases hf : o.fail = true
          · simp [Tree.archive, Tree.atLevel, archInfo, h, hp, hs, hf]
          · simp [Tree.archive, Tree.atLevel, archInfo, h, hp, hs, hf]
      · simp [Tree.archive, Tree.atLevel, archInfo, h, hp]
    · simp [Tree.archive, Tree.atLevel, archInfo, h]
  | .node i k, n + 1 =>
    simp only [Tree.archive]
    split
    · rename_i h
      have hd : lvl = d := by simpa using h
      have hf : (lvl + (n + 1) == d) = false := by simp; omega
      have hid : (fun x => archInfo srv (lvl + (n + 1) == d) x) = id := by
        funext x; rw [hf]; exact archInfo_false srv x
      have : ∀ t' : Tree, t'.kids = k → t'.atLevel (n + 1) = (k.atLevel n).map (archInfo srv (lvl + (n + 1) == d)) := by
        intro t' ht'
        match t', ht' with
        | .node i' k', ht' =>
          simp only [Tree.kids] at ht'
          subst ht'
          simp only [Tree.atLevel]
          rw [show (archInfo srv (lvl + (n + 1) == d)) = id from hid]; simp
      split
      · split
        · split <;> exact this _ rfl
        · exact this _ rfl
      · exact this _ rfl
    · simp only [Tree.atLevel]
      rw [Forest.atLevel_archive srv d (lvl + 1) k n]
      have : lvl + 1 + n = lvl + (n + 1) := by omega
      rw [this]
theorem Forest.atLevel_archive (srv : String → Option Outcome) (d lvl : Nat) (f : Forest) (n : Nat) :
    (f.archive srv d lvl).atLevel n = (f.atLevel n).map (archInfo srv (lvl + n == d)) := by
  match f with
  | .nil => simp [Forest.archive, Forest.atLevel]
  | .cons t f =>
    simp only [Forest.archive, Forest.atLevel, List.map_append, Tree.atLevel_archive srv d lvl t n, Forest.atLevel_archive srv d lvl f n]
end


/-- where a node of level `n` of the post-processed tree comes from: an old node of that level (its status changed only if
it was an Archived node of the working level), or a new Fresh child of an Archived node of the working level -/
def PostFrom (d lvl n : Nat) (lev : Nat → List Info) (j : Info) : Prop :=
  (∃ i ∈ lev n, if lvl + n = d ∧ i.st = .archived then (j.st = .completed ∨ j.st = .gotRedirected ∨ j.st = .gotChildren) else j.st = i.st) ∨
  (lvl + n = d + 1 ∧ j.st = .fresh ∧ ∃ m, n = m + 1 ∧ ∃ i ∈ lev m, i.st = .archived)

theorem PostFrom.mono {d lvl n : Nat} {lev lev' : Nat → List Info} {j : Info} (h : PostFrom d lvl n lev j)
    (hsub : ∀ m, ∀ i ∈ lev m, i ∈ lev' m) : PostFrom d lvl n lev' j := by
  rcases h with ⟨i, hi, h⟩ | ⟨h1, h2, m, hm, i, hi, h3⟩
  · exact Or.inl ⟨i, hsub _ i hi, h⟩
  · exact Or.inr ⟨h1, h2, m, hm, i, hsub _ i hi, h3⟩

mutual
theorem Tree.atLevel_post (S : SF) (hS : okPost S = true) (cfg : Cfg) (ex : String → Extract)
    (d lvl : Nat) (pdnr : Int) (isSeed : Bool) (t : Tree) (hemp : t.atLevel (d + 1 - lvl) = []) (hl : lvl ≤ d) (n : Nat) :
    ∀ j ∈ (t.post S cfg ex d lvl pdnr isSeed).1.atLevel n, PostFrom d lvl n t.atLevel j := by
  match t with
  | .node i k =>
    unfold Tree.post
    split
    · rename_i hld
      have hld' : lvl = d := by simpa using hld
      have hk : k = .nil := by
        have : d + 1 - lvl = 1 := by omega
        rw [this] at hemp
        simp only [Tree.atLevel] at hemp
        exact forest_atLevel_zero_nil k hemp
      subst hk
      split
      · rename_i harch
        have hst : i.st = .archived := by simpa using harch
        show ∀ j ∈ ((match postAct S cfg ex i (nodeDnr isSeed i.st pdnr) with
            | PostAct.complete => _ | PostAct.redirect c => _ | PostAct.extract kids outs => _ : Tree × List Outlink).1).atLevel n, _
        split
        · intro j hj
          cases n with
          | zero =>
            simp only [Tree.atLevel, List.mem_singleton] at hj
            exact Or.inl ⟨i, by simp [Tree.atLevel], by simp [hld', hst, hj]⟩
          | succ m => simp [Tree.atLevel, Forest.atLevel] at hj
        · rename_i c hc
          obtain ⟨_, _, _, _, hfresh⟩ := redirect_child S hS cfg ex i _ c hc
          intro j hj
          cases n with
          | zero =>
            simp only [Tree.atLevel, List.mem_singleton] at hj
            exact Or.inl ⟨i, by simp [Tree.atLevel], by simp [hld', hst, hj]⟩
          | succ m =>
            cases m with
            | zero =>
              simp only [Tree.atLevel, Forest.append, Forest.atLevel, List.append_nil, List.mem_singleton] at hj
              exact Or.inr ⟨by omega, by rw [hj]; exact hfresh, 0, rfl, i, by simp [Tree.atLevel], hst⟩
            | succ m' => simp [Tree.atLevel, Forest.append, Forest.atLevel] at hj
        · rename_i kids outs hc
          obtain ⟨hkids, _⟩ := extraction_hops S hS cfg ex i _ kids outs hc
          rw [foldl_append_leaves]
          intro j hj
          cases n with
          | zero =>
            simp only [Tree.atLevel, List.mem_singleton] at hj
            refine Or.inl ⟨i, by simp [Tree.atLevel], ?_⟩
            simp only [hld', hst, Nat.add_zero, and_self, if_true, hj]
            split <;> simp
          | succ m =>
            cases m with
            | zero =>
              simp only [Tree.atLevel, Forest.append, leaves_atLevel_zero] at hj
              exact Or.inr ⟨by omega, (hkids j hj).2.2, 0, rfl, i, by simp [Tree.atLevel], hst⟩
            | succ m' => simp [Tree.atLevel, Forest.append, leaves_atLevel_succ] at hj
      · rename_i harch
        intro j hj
        cases n with
        | zero =>
          simp only [Tree.atLevel, List.mem_singleton] at hj
          refine Or.inl ⟨i, by simp [Tree.atLevel], ?_⟩
          have : ¬ (lvl + 0 = d ∧ i.st = .archived) := by
            intro hh; exact harch (by simp [hh.2])
          simp only [this, if_false, hj]
        | succ m => simp [Tree.atLevel, Forest.atLevel] at hj
    · rename_i hld
      have hld' : lvl ≠ d := by simpa using hld
      have hemp' : k.atLevel (d + 1 - (lvl + 1)) = [] := by
        have : d + 1 - lvl = (d + 1 - (lvl + 1)) + 1 := by omega
        rw [this] at hemp
        simpa [Tree.atLevel] using hemp
      show ∀ j ∈ (match Forest.post S cfg ex d (lvl + 1) (nodeDnr isSeed i.st pdnr) k with
        | (k', outs) => ((Tree.node { i with body := false } k', outs) : Tree × List Outlink)).1.atLevel n, _
      cases hp : Forest.post S cfg ex d (lvl + 1) (nodeDnr isSeed i.st pdnr) k with
      | mk k' outs =>
        intro j hj
        cases n with
        | zero =>
          simp only [Tree.atLevel, List.mem_singleton] at hj
          refine Or.inl ⟨i, by simp [Tree.atLevel], ?_⟩
          have : ¬ (lvl + 0 = d ∧ i.st = .archived) := by intro hh; exact hld' (by omega)
          simp only [this, if_false, hj]
        | succ m =>
          simp only [Tree.atLevel] at hj
          have hf := Forest.atLevel_post S hS cfg ex d (lvl + 1) (nodeDnr isSeed i.st pdnr) k hemp' (by omega) m j (by rw [hp]; exact hj)
          have e : lvl + 1 + m = lvl + (m + 1) := by omega
          rcases hf with ⟨i', hi', h⟩ | ⟨h1, h2, m', hm', i', hi', h3⟩
          · exact Or.inl ⟨i', by simpa [Tree.atLevel] using hi', by rw [← e]; exact h⟩
          · exact Or.inr ⟨by omega, h2, m' + 1, by omega, i', by simpa [Tree.atLevel] using hi', h3⟩
theorem Forest.atLevel_post (S : SF) (hS : okPost S = true) (cfg : Cfg) (ex : String → Extract)
    (d lvl : Nat) (pdnr : Int) (f : Forest) (hemp : f.atLevel (d + 1 - lvl) = []) (hl : lvl ≤ d) (n : Nat) :
    ∀ j ∈ (f.post S cfg ex d lvl pdnr).1.atLevel n, PostFrom d lvl n f.atLevel j := by
  match f with
  | .nil => intro j hj; simp [Forest.post, Forest.atLevel] at hj
  | .cons t f =>
    simp only [Forest.atLevel, List.append_eq_nil_iff] at hemp
    intro j hj
    simp only [Forest.post, Forest.atLevel, List.mem_append] at hj
    rcases hj with hj | hj
    · exact (Tree.atLevel_post S hS cfg ex d lvl pdnr false t hemp.1 hl n j hj).mono
        (fun m i hi => by simp [Forest.atLevel, hi])
    · exact (Forest.atLevel_post S hS cfg ex d lvl pdnr f hemp.2 hl n j hj).mono
        (fun m i hi => by simp [Forest.atLevel, hi])
end


/-! ### node ids (they are UUIDs: distinct) -/

def _root_.Zeno.Model.Item.Tree.idl (t : Tree) : List String := t.flatten.map (·.id)
def _root_.Zeno.Model.Item.Forest.idl (f : Forest) : List String := f.flatten.map (·.id)

theorem Tree.idl_node (i : Info) (k : Forest) : (Tree.node i k).idl = i.id :: k.idl := by simp [Tree.idl, Forest.idl, Tree.flatten]
theorem Forest.idl_cons (t : Tree) (f : Forest) : (Forest.cons t f).idl = t.idl ++ f.idl := by
  simp [Tree.idl, Forest.idl, Forest.flatten]

mutual
theorem Tree.idl_setNorm (ks : List (String × NormRes)) (t : Tree) : (t.setNorm ks).idl = t.idl := by
  match t with
  | .node i k =>
    simp only [Tree.setNorm, Tree.idl_node, Forest.idl_setNorm ks k]
    cases List.lookup i.id ks <;> rfl
theorem Forest.idl_setNorm (ks : List (String × NormRes)) (f : Forest) : (f.setNorm ks).idl = f.idl := by
  match f with
  | .nil => rfl
  | .cons t f => simp only [Forest.setNorm, Forest.idl_cons, Tree.idl_setNorm ks t, Forest.idl_setNorm ks f]
end

mutual
theorem Tree.idl_setStatuses (l : List String) (s : Status) (rq : Bool) (t : Tree) : (t.setStatuses l s rq).idl = t.idl := by
  match t with
  | .node i k =>
    simp only [Tree.setStatuses, Tree.idl_node, Forest.idl_setStatuses l s rq k]
    split <;> rfl
theorem Forest.idl_setStatuses (l : List String) (s : Status) (rq : Bool) (f : Forest) : (f.setStatuses l s rq).idl = f.idl := by
  match f with
  | .nil => rfl
  | .cons t f => simp only [Forest.setStatuses, Forest.idl_cons, Tree.idl_setStatuses l s rq t, Forest.idl_setStatuses l s rq f]
end

mutual
theorem Tree.idl_archive (srv : String → Option Outcome) (d lvl : Nat) (t : Tree) : (t.archive srv d lvl).idl = t.idl := by
  match t with
  | .node i k =>
    simp only [Tree.archive]
    split
    · split
      · split
        · split <;> simp [Tree.idl_node]
        · simp [Tree.idl_node]
      · rfl
    · simp only [Tree.idl_node, Forest.idl_archive srv d (lvl + 1) k]
theorem Forest.idl_archive (srv : String → Option Outcome) (d lvl : Nat) (f : Forest) : (f.archive srv d lvl).idl = f.idl := by
  match f with
  | .nil => rfl
  | .cons t f => simp only [Forest.archive, Forest.idl_cons, Tree.idl_archive srv d lvl t, Forest.idl_archive srv d lvl f]
end

theorem idl_setRoot (t : Tree) (s : Status) : (setRoot t s).idl = t.idl := by
  match t with | .node i k => simp [setRoot, Tree.idl_node]

theorem idl_mark (F : IF) (t : Tree) : (t.mark F).idl = t.idl := by
  have h := congrArg (List.map Prod.fst) (Tree.flatten_mark F t)
  simpa [Tree.idl, List.map_map, Function.comp_def] using h

theorem idl_prune_nodup (rm : List String) (t : Tree) (h : t.idl.Nodup) : (t.prune rm).idl.Nodup := by
  match t with
  | .node i k =>
    have hs : ((Tree.node i k).prune rm).flatten.Sublist (Tree.node i k).flatten := by
      simp only [Tree.prune, Tree.flatten]
      exact ((Forest.flatten_prune rm k).trans List.filter_sublist).cons_cons i
    exact (hs.map (fun (x : Info) => x.id)).nodup h

mutual
theorem Tree.atLevel_sub_flatten (t : Tree) (n : Nat) : ∀ i ∈ t.atLevel n, i ∈ t.flatten := by
  match t, n with
  | .node i k, 0 => intro j hj; simp only [Tree.atLevel, List.mem_singleton] at hj; simp [Tree.flatten, hj]
  | .node i k, n + 1 =>
    intro j hj
    simp only [Tree.atLevel] at hj
    simp [Tree.flatten, Forest.atLevel_sub_flatten k n j hj]
theorem Forest.atLevel_sub_flatten (f : Forest) (n : Nat) : ∀ i ∈ f.atLevel n, i ∈ f.flatten := by
  match f with
  | .nil => intro j hj; simp [Forest.atLevel] at hj
  | .cons t f =>
    intro j hj
    simp only [Forest.atLevel, List.mem_append] at hj
    simp only [Forest.flatten, List.mem_append]
    rcases hj with hj | hj
    · exact Or.inl (Tree.atLevel_sub_flatten t n j hj)
    · exact Or.inr (Forest.atLevel_sub_flatten f n j hj)
end

theorem mem_idl_of_atLevel (t : Tree) (n : Nat) (i : Info) (h : i ∈ t.atLevel n) : i.id ∈ t.idl :=
  List.mem_map.2 ⟨i, Tree.atLevel_sub_flatten t n i h, rfl⟩
theorem mem_idl_of_atLevelF (f : Forest) (n : Nat) (i : Info) (h : i ∈ f.atLevel n) : i.id ∈ f.idl :=
  List.mem_map.2 ⟨i, Forest.atLevel_sub_flatten f n i h, rfl⟩

mutual
/-- with distinct ids, an id determines the level of its node -/
theorem Tree.level_unique (t : Tree) (hn : t.idl.Nodup) (n m : Nat) (i j : Info) (hi : i ∈ t.atLevel n) (hj : j ∈ t.atLevel m)
    (hid : i.id = j.id) : n = m := by
  match t with
  | .node i0 k =>
    rw [Tree.idl_node, List.nodup_cons] at hn
    cases n with
    | zero =>
      cases m with
      | zero => rfl
      | succ m' =>
        simp only [Tree.atLevel, List.mem_singleton] at hi hj
        exact absurd (by rw [← hi, hid]; exact mem_idl_of_atLevelF k m' j hj) hn.1
    | succ n' =>
      cases m with
      | zero =>
        simp only [Tree.atLevel, List.mem_singleton] at hi hj
        exact absurd (by rw [← hj, ← hid]; exact mem_idl_of_atLevelF k n' i hi) hn.1
      | succ m' =>
        simp only [Tree.atLevel] at hi hj
        rw [Forest.level_unique k hn.2 n' m' i j hi hj hid]
theorem Forest.level_unique (f : Forest) (hn : f.idl.Nodup) (n m : Nat) (i j : Info) (hi : i ∈ f.atLevel n) (hj : j ∈ f.atLevel m)
    (hid : i.id = j.id) : n = m := by
  match f with
  | .nil => simp [Forest.atLevel] at hi
  | .cons t f =>
    rw [Forest.idl_cons, List.nodup_append] at hn
    obtain ⟨h1, h2, h3⟩ := hn
    simp only [Forest.atLevel, List.mem_append] at hi hj
    rcases hi with hi | hi <;> rcases hj with hj | hj
    · exact Tree.level_unique t h1 n m i j hi hj hid
    · exact absurd hid (h3 _ (mem_idl_of_atLevel t n i hi) _ (mem_idl_of_atLevelF f m j hj))
    · exact absurd hid.symm (h3 _ (mem_idl_of_atLevel t m j hj) _ (mem_idl_of_atLevelF f n i hi))
    · exact Forest.level_unique f h2 n m i j hi hj hid
end


/-! ### the invariants between the stages -/

/-- pending nodes (Fresh, PreProcessed, Archived) only on level `d` -/
def PendOnly (t : Tree) (d : Nat) : Prop := ∀ n, ∀ i ∈ t.atLevel n, i.st.pending = true → n = d

/-- the tree at the start of a pass -/
structure Start (R d : Nat) (t : Tree) : Prop where
  depth : t.maxDepth = d
  ids : t.idl.Nodup
  pend : PendOnly t d
  fresh : ∀ i ∈ t.atLevel d, i.st = .fresh
  rank : t.rk R 0 0 none = true

/-- the tree between two stages of the pass working on level `d`: the nodes of level `d` have a status in `P` -/
structure Mid (R d : Nat) (P : Status → Prop) (t : Tree) : Prop where
  ids : t.idl.Nodup
  rank : t.rk R 0 0 none = true
  top : t.atLevel (d + 1) = []
  pend : PendOnly t d
  lev : ∀ i ∈ t.atLevel d, P i.st

/-- the seed itself was rejected or has nothing left to do: the finisher will let it go -/
def RootDone (t : Tree) : Prop := t.st = .completed ∨ t.st = .failed

theorem Start.toMid {R d : Nat} {t : Tree} (h : Start R d t) : Mid R d (· = .fresh) t :=
  ⟨h.ids, h.rank, atLevel_above_nil t (d + 1) (by rw [h.depth]; omega), h.pend, h.fresh⟩

theorem Mid.weaken {R d : Nat} {P Q : Status → Prop} {t : Tree} (h : Mid R d P t) (hpq : ∀ s, P s → Q s) : Mid R d Q t :=
  ⟨h.ids, h.rank, h.top, h.pend, fun i hi => hpq _ (h.lev i hi)⟩

theorem mid_setNorm {R d : Nat} {P : Status → Prop} {t : Tree} (ks : List (String × NormRes)) (h : Mid R d P t) :
    Mid R d P (t.setNorm ks) := by
  have hst : ∀ i, (normInfo ks i).st = i.st := by intro i; unfold normInfo; split <;> rfl
  refine ⟨by rw [Tree.idl_setNorm]; exact h.ids, Tree.rk_setNorm ks R 0 0 none t h.rank, ?_, ?_, ?_⟩
  · rw [Tree.atLevel_setNorm, h.top]; rfl
  · intro n j hj hp
    rw [Tree.atLevel_setNorm] at hj
    obtain ⟨i, hi, rfl⟩ := List.mem_map.1 hj
    exact h.pend n i hi (by rw [← hst i]; exact hp)
  · intro j hj
    rw [Tree.atLevel_setNorm] at hj
    obtain ⟨i, hi, rfl⟩ := List.mem_map.1 hj
    rw [hst i]; exact h.lev i hi

theorem mid_prune {R d : Nat} {P : Status → Prop} {t : Tree} (rm : List String) (h : Mid R d P t) : Mid R d P (t.prune rm) := by
  refine ⟨idl_prune_nodup rm t h.ids, Tree.rk_prune rm R 0 0 none t h.rank, ?_, ?_, ?_⟩
  · apply List.eq_nil_iff_forall_not_mem.2
    intro j hj
    have := Tree.atLevel_prune_all rm t (d + 1) j hj
    rw [h.top] at this; cases this
  · intro n j hj hp; exact h.pend n j (Tree.atLevel_prune_all rm t n j hj) hp
  · intro j hj; exact h.lev j (Tree.atLevel_prune_all rm t d j hj)

theorem mid_mark {R d : Nat} {P : Status → Prop} {t : Tree} (F : IF) (hF : okSets F = true) (h : Mid R d P t)
    (hP : ∀ s, P s → s ≠ .gotChildren ∧ s ≠ .gotRedirected) : Mid R d P (t.mark F) := by
  refine ⟨by rw [idl_mark]; exact h.ids, Tree.rk_mark F R 0 0 none t h.rank, (atLevel_mark_nil_iff F t _).2 h.top, ?_, ?_⟩
  · intro n j hj hp
    obtain ⟨i, hi, hs⟩ := Tree.atLevel_mark F hF t n j hj
    rcases hs with hs | ⟨hs, _⟩
    · exact h.pend n i hi (by rw [← hs]; exact hp)
    · rw [hs] at hp; cases hp
  · intro j hj
    obtain ⟨i, hi, hs⟩ := Tree.atLevel_mark F hF t d j hj
    rcases hs with hs | ⟨_, hs⟩
    · rw [hs]; exact h.lev i hi
    · have := hP _ (h.lev i hi)
      rcases hs with hs | hs
      · exact absurd hs this.1
      · exact absurd hs this.2

theorem mid_dedupe {R d : Nat} {t : Tree} (F : IF) (hF : okSets F = true) (h : Mid R d (· = .fresh) t) :
    Mid R d (· = .fresh) (dedupe F t) := by
  unfold dedupe
  exact mid_mark F hF (mid_prune _ h) (by intro s hs; subst hs; simp)

theorem setRoot_done (t : Tree) (s : Status) (hs : s = .completed ∨ s = .failed) : RootDone (setRoot t s) := by
  match t with | .node i k => simpa [RootDone, setRoot, Tree.st, Tree.info] using hs

/-- marking nodes Seen (wherever their id occurs) -/
theorem mid_seen {R d : Nat} {t : Tree} (l : List String) (h : Mid R d (· = .fresh) t) :
    Mid R d (fun s => s = .fresh ∨ s = .seen) (t.setStatuses l .seen false) := by
  refine ⟨by rw [Tree.idl_setStatuses]; exact h.ids, Tree.rk_setStatuses l .seen false (by simp) R 0 0 none t h.rank, ?_, ?_, ?_⟩
  · rw [Tree.atLevel_setStatuses, h.top]; rfl
  · intro n j hj hp
    rw [Tree.atLevel_setStatuses] at hj
    obtain ⟨i, hi, rfl⟩ := List.mem_map.1 hj
    unfold stamp at hp
    split at hp
    · cases hp
    · exact h.pend n i hi hp
  · intro j hj
    rw [Tree.atLevel_setStatuses] at hj
    obtain ⟨i, hi, rfl⟩ := List.mem_map.1 hj
    unfold stamp
    split
    · exact Or.inr rfl
    · exact Or.inl (h.lev i hi)

/-- the Fresh nodes of level `d` become PreProcessed -/
theorem mid_requests {R d : Nat} {t : Tree} (h : Mid R d (fun s => s = .fresh ∨ s = .seen) t) :
    Mid R d (fun s => s = .preProcessed ∨ s = .seen)
      (t.setStatuses (((t.atLevel d).filter (fun i => i.st == .fresh)).map (·.id)) .preProcessed true) := by
  refine ⟨by rw [Tree.idl_setStatuses]; exact h.ids, Tree.rk_setStatuses _ .preProcessed true (by simp) R 0 0 none t h.rank, ?_, ?_, ?_⟩
  · rw [Tree.atLevel_setStatuses, h.top]; rfl
  · intro n j hj hp
    rw [Tree.atLevel_setStatuses] at hj
    obtain ⟨i, hi, rfl⟩ := List.mem_map.1 hj
    unfold stamp at hp
    split at hp
    · rename_i hc
      simp only [List.contains_eq_mem, List.mem_map, List.mem_filter, decide_eq_true_eq] at hc
      obtain ⟨f, ⟨hf, _⟩, hid⟩ := hc
      exact Tree.level_unique t h.ids n d i f hi hf hid.symm
    · exact h.pend n i hi hp
  · intro j hj
    rw [Tree.atLevel_setStatuses] at hj
    obtain ⟨i, hi, rfl⟩ := List.mem_map.1 hj
    unfold stamp
    split
    · exact Or.inl rfl
    · rename_i hc
      rcases h.lev i hi with hs | hs
      · exfalso; apply hc
        simp only [List.contains_eq_mem, List.mem_map, List.mem_filter, decide_eq_true_eq]
        exact ⟨i, ⟨hi, by simp [hs]⟩, rfl⟩
      · exact Or.inr hs


/-! ### preprocess -/

theorem verdict_fresh (cfg : Cfg) (norm : String → Option NormRes) (t : Tree) (i : Info) (hf : i.st = .fresh) :
    (∃ r, verdict cfg norm t i = .keep r) ∨ verdict cfg norm t i = .remove ∨ verdict cfg norm t i = .stop .failed ∨
      verdict cfg norm t i = .stop .completed := by
  cases hv : verdict cfg norm t i with
  | keep r => exact Or.inl ⟨r, rfl⟩
  | remove => exact Or.inr (Or.inl rfl)
  | panic =>
    exfalso
    unfold verdict at hv
    simp only [hf, bne_self_eq_false, Bool.false_eq_true, if_false] at hv
    split at hv
    · split at hv <;> cases hv
    · skip
      split at hv
      · split at hv <;> cases hv
      · split at hv <;> cases hv
  | stop st =>
    unfold verdict at hv
    simp only [hf, bne_self_eq_false, Bool.false_eq_true, if_false] at hv
    split at hv
    · split at hv
      · cases hv; exact Or.inr (Or.inr (Or.inl rfl))
      · cases hv
    · skip
      split at hv
      · split at hv
        · cases hv
        · cases hv; exact Or.inr (Or.inr (Or.inr rfl))
      · split at hv <;> cases hv

/-- with only Fresh nodes on the working level, the first loop of `preprocess` runs through or stops at the seed -/
theorem scan_flag (cfg : Cfg) (norm : String → Option NormRes) (t : Tree) (items : List Info) (hf : ∀ i ∈ items, i.st = .fresh) :
    (scan cfg norm t items).2.2 = none ∨ (scan cfg norm t items).2.2 = some (.stop .failed) ∨
      (scan cfg norm t items).2.2 = some (.stop .completed) := by
  induction items with
  | nil => exact Or.inl rfl
  | cons i rest ih =>
    have ih' := ih (fun j hj => hf j (by simp [hj]))
    rcases verdict_fresh cfg norm t i (hf i (by simp)) with ⟨r, hv⟩ | hv | hv | hv
    · simp only [scan, hv]; exact ih'
    · simp only [scan, hv]; exact ih'
    · simp only [scan, hv]; exact Or.inr (Or.inl trivial)
    · simp only [scan, hv]; exact Or.inr (Or.inr trivial)

/-- the last steps of `preprocess`: mark the nodes the seen-store reported, give the others a request -/
theorem finalStep_spec {R d : Nat} {t2 : Tree} (sr : Seen × List String) (h : Mid R d (· = .fresh) t2) :
    let c := finalStep t2 sr d
    c.2.2.2 = .ok ∧
    (RootDone (if c.2.2.1.isEmpty then c.1 else c.1.setStatuses c.2.2.1 .preProcessed true) ∨
     Mid R d (fun s => s = .preProcessed ∨ s = .seen) (if c.2.2.1.isEmpty then c.1 else c.1.setStatuses c.2.2.1 .preProcessed true)) := by
  have h3 := mid_seen sr.2 h
  unfold finalStep
  simp only
  split
  · simp only [List.isEmpty_nil, if_true, true_and]
    exact Or.inl (setRoot_done _ _ (Or.inl rfl))
  · rename_i hne
    refine ⟨rfl, Or.inr ?_⟩
    simp only
    have hne' : ((((t2.setStatuses sr.2 .seen false).atLevel d).filter (fun i => i.st == .fresh)).map (·.id)).isEmpty = false := by
      simpa using hne
    simp only [hne', Bool.false_eq_true, if_false]
    exact mid_requests h3

theorem preTail_spec {R d : Nat} (S : SF) (hg : (S.preSeencheckGuard == "always") = false) (cfg : Cfg) (seen : Seen) {t2 : Tree}
    (h : Mid R d (· = .fresh) t2) :
    let c := preTail S cfg seen t2 d
    c.2.2.2 = .ok ∧
    (RootDone (if c.2.2.1.isEmpty then c.1 else c.1.setStatuses c.2.2.1 .preProcessed true) ∨
     Mid R d (fun s => s = .preProcessed ∨ s = .seen) (if c.2.2.1.isEmpty then c.1 else c.1.setStatuses c.2.2.1 .preProcessed true)) := by
  unfold preTail
  simp only
  split
  · simp only [List.isEmpty_nil, if_true, true_and]
    exact Or.inl (setRoot_done _ _ (Or.inl rfl))
  · split
    · exact finalStep_spec _ h
    · simp only [hg, Bool.false_or]
      split
      · rename_i hc
        simp at hc
      · exact finalStep_spec _ h

/-- **preprocess.** From the start-of-pass shape, `preprocess` neither panics nor crashes; afterwards either the seed itself
is done (rejected, or nothing left to fetch), or every node of the working level is PreProcessed or Seen and nothing else
in the tree is pending. -/
theorem pre_spec (S : SF) (I : IF) (hI : okSets I = true) (hg : (S.preSeencheckGuard == "always") = false) (cfg : Cfg)
    (norm : String → Option NormRes) (seen : Seen) {R d : Nat} {t : Tree} (h : Start R d t) :
    let p := preprocess S I cfg norm seen t
    p.2.2 = .ok ∧ (RootDone p.1 ∨ Mid R d (fun s => s = .preProcessed ∨ s = .seen) p.1) := by
  have hm := h.toMid
  have h1 : Mid R d (· = .fresh) ((t.setNorm (scan cfg norm t (t.atLevel d)).2.1).prune (scan cfg norm t (t.atLevel d)).1) :=
    mid_prune _ (mid_setNorm _ hm)
  unfold preprocess preCore
  simp only [h.depth]
  rcases scan_flag cfg norm t (t.atLevel d) h.fresh with hf | hf | hf
  · simp only [hf]
    exact preTail_spec S hg cfg seen (mid_dedupe I hI h1)
  · simp only [hf, List.isEmpty_nil, if_true, true_and]
    exact Or.inl (setRoot_done _ _ (Or.inr rfl))
  · simp only [hf, List.isEmpty_nil, if_true, true_and]
    exact Or.inl (setRoot_done _ _ (Or.inl rfl))


/-! ### archive -/

theorem Tree.atLevel_zero (t : Tree) : t.atLevel 0 = [t.info] := by
  match t with | .node i k => rfl

theorem archive_root (srv : String → Option Outcome) (t : Tree) : (archive srv t).info = archInfo srv (0 == t.maxDepth) t.info := by
  have h := Tree.atLevel_archive srv t.maxDepth 0 t 0
  rw [Tree.atLevel_zero, Tree.atLevel_zero] at h
  simpa [archive] using h

theorem archInfo_st_ne (srv : String → Option Outcome) (b : Bool) (i : Info) (h : i.st ≠ .preProcessed) : archInfo srv b i = i := by
  have : (i.st == Status.preProcessed) = false := by simpa using h
  simp [archInfo, this]

theorem archive_rootDone (srv : String → Option Outcome) (t : Tree) (h : RootDone t) : RootDone (archive srv t) := by
  unfold RootDone Tree.st at *
  rw [archive_root, archInfo_st_ne]
  · exact h
  · rcases h with h | h <;> rw [h] <;> simp

theorem arch_spec (srv : String → Option Outcome) {R d : Nat} {t : Tree} (h : Mid R d (fun s => s = .preProcessed ∨ s = .seen) t) :
    Mid R d (fun s => s = .archived ∨ s = .failed ∨ s = .seen) (archive srv t) := by
  unfold archive
  refine ⟨by rw [Tree.idl_archive]; exact h.ids, Tree.rk_archive srv _ 0 R 0 0 none t h.rank, ?_, ?_, ?_⟩
  · rw [Tree.atLevel_archive, h.top]; rfl
  · intro n j hj hp
    rw [Tree.atLevel_archive] at hj
    obtain ⟨i, hi, rfl⟩ := List.mem_map.1 hj
    by_cases hpp : i.st = .preProcessed
    · exact h.pend n i hi (by rw [hpp]; rfl)
    · rw [archInfo_st_ne srv _ i hpp] at hp
      exact h.pend n i hi hp
  · intro j hj
    rw [Tree.atLevel_archive] at hj
    obtain ⟨i, hi, rfl⟩ := List.mem_map.1 hj
    have hmd : t.maxDepth = d := maxDepth_eq_of_levels t d (List.ne_nil_of_mem hi) h.top
    rcases h.lev i hi with hs | hs
    · have hb : (0 + d == t.maxDepth) = true := by simp [hmd]
      have hs' : (i.st == Status.preProcessed) = true := by simp [hs]
      simp only [archInfo, hb, hs', Bool.and_self, if_true]
      split
      · split
        · exact Or.inr (Or.inl rfl)
        · exact Or.inl rfl
      · exact Or.inr (Or.inl rfl)
    · rw [archInfo_st_ne srv _ i (by rw [hs]; simp)]
      exact Or.inr (Or.inr hs)

/-! ### postprocess -/

theorem post_root_st (S : SF) (cfg : Cfg) (ex : String → Extract) (d lvl : Nat) (pdnr : Int) (isSeed : Bool) (t : Tree)
    (h : t.st ≠ .archived) : (t.post S cfg ex d lvl pdnr isSeed).1.st = t.st := by
  match t with
  | .node i k =>
    simp only [Tree.st, Tree.info] at h
    have hna : (i.st == Status.archived) = false := by simpa using h
    unfold Tree.post
    split
    · simp only [hna, Bool.false_eq_true, if_false]; rfl
    · show (match Forest.post S cfg ex d (lvl + 1) (nodeDnr isSeed i.st pdnr) k with
        | (k', outs) => ((Tree.node { i with body := false } k', outs) : Tree × List Outlink)).1.st = _
      cases Forest.post S cfg ex d (lvl + 1) (nodeDnr isSeed i.st pdnr) k with
      | mk k' outs => rfl

theorem post_rootDone (S : SF) (cfg : Cfg) (ex : String → Extract) (t : Tree) (h : RootDone t) : RootDone (postprocess S cfg ex t).1 := by
  unfold RootDone postprocess at *
  rw [post_root_st]
  · exact h
  · rcases h with h | h <;> rw [h] <;> simp

/-- **postprocess.** Afterwards nothing is pending except new Fresh children one level further down. -/
theorem post_spec (S : SF) (hS : okPost S = true) (cfg : Cfg) (hdc : cfg.domainsCrawl = false) (ex : String → Extract) {d : Nat} {t : Tree}
    (h : Mid cfg.maxRedirect d (fun s => s = .archived ∨ s = .failed ∨ s = .seen) t)
    (hid : (postprocess S cfg ex t).1.idl.Nodup) :
    Mid cfg.maxRedirect (d + 1) (· = .fresh) (postprocess S cfg ex t).1 := by
  have hw : t.maxDepth ≤ d := by
    have := (Tree.atLevel_nil_iff t (d + 1)).1 h.top
    omega
  have hempt : t.atLevel (t.maxDepth + 1 - 0) = [] := atLevel_above_nil t _ (by omega)
  have hfrom := Tree.atLevel_post S hS cfg ex t.maxDepth 0 0 true t hempt (Nat.zero_le _)
  -- an Archived node on the working level forces the working level to be `d`
  have harch : ∀ m, ∀ i ∈ t.atLevel m, i.st = .archived → m = d := fun m i hi hs => h.pend m i hi (by rw [hs]; rfl)
  have key : ∀ n, ∀ j ∈ (postprocess S cfg ex t).1.atLevel n, j.st.pending = true → n = d + 1 ∧ j.st = .fresh := by
    intro n j hj hp
    rcases hfrom n j hj with ⟨i, hi, hc⟩ | ⟨h1, h2, m, hm, i, hi, h3⟩
    · split at hc
      · rcases hc with hc | hc | hc <;> rw [hc] at hp <;> cases hp
      · rename_i hcond
        rw [hc] at hp
        have hnd := h.pend n i hi hp
        subst hnd
        have hmd : t.maxDepth = n := maxDepth_eq_of_levels t n (List.ne_nil_of_mem hi) h.top
        rcases h.lev i hi with hs | hs | hs
        · exact absurd ⟨by omega, hs⟩ hcond
        · rw [hs] at hp; cases hp
        · rw [hs] at hp; cases hp
    · have := harch m i hi h3
      exact ⟨by omega, h2⟩
  refine ⟨hid, ?_, ?_, fun n j hj hp => (key n j hj hp).1, ?_⟩
  · refine Tree.rk_post S hS cfg hdc ex t.maxDepth 0 0 true 0 0 none t hempt (Nat.zero_le _) ?_ h.rank
    simp only [aLevel, nodeDnr, if_true]
    by_cases hg : t.info.st = .gotRedirected <;> simp [hg]
  · apply List.eq_nil_iff_forall_not_mem.2
    intro j hj
    rcases hfrom (d + 1 + 1) j hj with ⟨i, hi, _⟩ | ⟨h1, _, m, hm, i, hi, h3⟩
    · have : t.atLevel (d + 1 + 1) = [] := atLevel_above_nil t _ (by omega)
      rw [this] at hi; cases hi
    · omega
  · intro j hj
    rcases hfrom (d + 1) j hj with ⟨i, hi, _⟩ | ⟨_, h2, _⟩
    · rw [h.top] at hi; cases hi
    · exact h2

/-! ### finisher -/

mutual
theorem Tree.anyPending_of_levels (t : Tree) (h : ∀ n, ∀ i ∈ t.atLevel n, i.st.pending = false) : t.anyPending = false := by
  match t with
  | .node i k =>
    simp only [Tree.anyPending, Bool.or_eq_false_iff]
    exact ⟨h 0 i (by simp [Tree.atLevel]), Forest.anyPending_of_levels k (fun n j hj => h (n + 1) j (by simpa [Tree.atLevel] using hj))⟩
theorem Forest.anyPending_of_levels (f : Forest) (h : ∀ n, ∀ i ∈ f.atLevel n, i.st.pending = false) : f.anyPending = false := by
  match f with
  | .nil => rfl
  | .cons t f =>
    simp only [Forest.anyPending, Bool.or_eq_false_iff]
    exact ⟨Tree.anyPending_of_levels t (fun n j hj => h n j (by simp [Forest.atLevel, hj])),
      Forest.anyPending_of_levels f (fun n j hj => h n j (by simp [Forest.atLevel, hj]))⟩
end

theorem fin_rootDone (I : IF) (hI : okSets I = true) (t : Tree) (h : RootDone t) : (finisher I t).2 = .finish := by
  unfold finisher
  have hnf : (t.st == Status.fresh) = false := by rcases h with h | h <;> rw [h] <;> rfl
  have hnw : hasWork I t.st = false := by rw [hasWork_eq I hI]; rcases h with h | h <;> rw [h] <;> rfl
  simp only [hnf, Bool.false_eq_true, if_false, completeAndCheck, hnw, Bool.not_false, if_true]

/-- **finisher.** After `postprocess`, either the seed is let go, or it is sent round again and its tree is one level
deeper, in the start-of-pass shape. -/
theorem fin_spec (I : IF) (hI : okSets I = true) {R d : Nat} {t : Tree} (h : Mid R (d + 1) (· = .fresh) t) :
    (finisher I t).2 = .finish ∨ ((finisher I t).2 = .feedback ∧ Start R (d + 1) (finisher I t).1) := by
  have hroot : t.st.pending = false := by
    cases hp : t.st.pending with
    | false => rfl
    | true =>
      have := h.pend 0 t.info (by rw [Tree.atLevel_zero]; simp) hp
      omega
  have hnf : (t.st == Status.fresh) = false := by
    cases hs : t.st <;> simp_all [Status.pending]
  unfold finisher
  simp only [hnf, Bool.false_eq_true, if_false]
  unfold completeAndCheck
  split
  · exact Or.inl (by simp)
  · simp only
    by_cases hw : hasWork I (t.mark I).st = false
    · exact Or.inl (by simp [hw])
    · have hw : hasWork I (t.mark I).st = true := by simpa using hw
      refine Or.inr ⟨by simp [hw], ?_⟩
      have hm := mid_mark I hI h (by intro s hs; subst hs; simp)
      have hne : t.atLevel (d + 1) ≠ [] := by
        intro hemp
        have hnp : t.anyPending = false := by
          apply Tree.anyPending_of_levels
          intro n i hi
          cases hp : i.st.pending with
          | false => rfl
          | true =>
            have := h.pend n i hi hp
            subst this
            rw [hemp] at hi; cases hi
        have := Tree.mark_done I hI t hnp
        rw [this] at hw; cases hw
      have hne' : (t.mark I).atLevel (d + 1) ≠ [] := fun hh => hne ((atLevel_mark_nil_iff I t _).1 hh)
      exact ⟨maxDepth_eq_of_levels _ _ hne' hm.top, hm.ids, hm.pend, hm.lev, hm.rank⟩


/-! ### one pass, and the whole life of a seed -/

/-- the nodes created in this pass get ids that are not in use in the tree (ids are UUIDs) -/
def passIds (S : SF) (I : IF) (cfg : Cfg) (o : Oracle) (seen : Seen) (t : Tree) : Bool :=
  decide (postprocess S cfg o.ex (archive o.srv (preprocess S I cfg o.norm seen t).1)).1.idl.Nodup

/-- … in every pass of a life -/
def idsOK (S : SF) (I : IF) (cfg : Cfg) : List Oracle → Seen → Tree → Bool
  | [], _, _ => true
  | o :: os, seen, t =>
    passIds S I cfg o seen t &&
      (!((pass S I cfg o seen t).act == .feedback) || idsOK S I cfg os (pass S I cfg o seen t).seen (pass S I cfg o seen t).tree)

/-- **One pass.** From the start-of-pass shape, a pass through the four stages never panics, and it ends with the finisher
letting the seed go, or with the seed sent round again with a tree exactly one level deeper, again in start-of-pass shape. -/
theorem pass_progress (S : SF) (hS : okPost S = true) (hg : (S.preSeencheckGuard == "always") = false) (I : IF) (hI : okSets I = true)
    (cfg : Cfg) (hdc : cfg.domainsCrawl = false) (o : Oracle) (seen : Seen) {d : Nat} {t : Tree}
    (h : Start cfg.maxRedirect d t) (hid : passIds S I cfg o seen t = true) :
    (pass S I cfg o seen t).pre = .ok ∧
      ((pass S I cfg o seen t).act = .finish ∨
       ((pass S I cfg o seen t).act = .feedback ∧ Start cfg.maxRedirect (d + 1) (pass S I cfg o seen t).tree)) := by
  obtain ⟨hok, hc⟩ := pre_spec S I hI hg cfg o.norm seen h
  refine ⟨hok, ?_⟩
  simp only [pass]
  rcases hc with hc | hc
  · exact Or.inl (fin_rootDone I hI _ (post_rootDone S cfg o.ex _ (archive_rootDone o.srv _ hc)))
  · have hid' := of_decide_eq_true hid
    exact fin_spec I hI (post_spec S hS cfg hdc o.ex (arch_spec o.srv hc) hid')

theorem start_depth_le {R d : Nat} {t : Tree} (h : Start R d t) : d ≤ 4 * R + 3 := by
  have := rk_depth_bound R t h.rank
  rw [h.depth] at this; exact this

/-- **Bounded passes.** From a tree of depth `d` in start-of-pass shape, whatever the oracles of the successive passes answer,
the finisher lets the seed go after at most `4 · max-redirect + 4 - d` passes. -/
theorem life_bounded (S : SF) (hS : okPost S = true) (hg : (S.preSeencheckGuard == "always") = false) (I : IF) (hI : okSets I = true)
    (cfg : Cfg) (hdc : cfg.domainsCrawl = false) (os : List Oracle) :
    ∀ (seen : Seen) (d : Nat) (t : Tree), Start cfg.maxRedirect d t → idsOK S I cfg os seen t = true →
      4 * cfg.maxRedirect + 4 ≤ d + os.length →
      (life S I cfg os seen t).2.isSome = true ∧ (life S I cfg os seen t).1 + d ≤ 4 * cfg.maxRedirect + 4 := by
  induction os with
  | nil =>
    intro seen d t h _ hlen
    have := start_depth_le h
    simp at hlen; omega
  | cons o os ih =>
    intro seen d t h hids hlen
    simp only [idsOK, Bool.and_eq_true, Bool.or_eq_true, Bool.not_eq_true'] at hids
    obtain ⟨_, hc⟩ := pass_progress S hS hg I hI cfg hdc o seen h hids.1
    have hd := start_depth_le h
    simp only [life]
    rcases hc with hf | ⟨hf, hst⟩
    · simp only [hf]
      exact ⟨rfl, by simp; omega⟩
    · simp only [hf, beq_self_eq_true, if_true]
      have hids' : idsOK S I cfg os (pass S I cfg o seen t).seen (pass S I cfg o seen t).tree = true := by
        rcases hids.2 with h' | h'
        · rw [hf] at h'; cases h'
        · exact h'
      have := ih _ (d + 1) _ hst hids' (by simp at hlen; omega)
      exact ⟨this.1, by omega⟩

/-- a lone Fresh seed is in start-of-pass shape -/
theorem start_seed (R : Nat) (i : Info) (hf : i.st = .fresh) (hr : i.redirects = 0) : Start R 0 (Tree.node i .nil) := by
  refine ⟨rfl, by simp [Tree.idl, Tree.flatten, Forest.flatten], ?_, ?_, ?_⟩
  · intro n j hj hp
    cases n with
    | zero => rfl
    | succ m => simp [Tree.atLevel, Forest.atLevel] at hj
  · intro j hj
    simp only [Tree.atLevel, List.mem_singleton] at hj
    rw [hj]; exact hf
  · simp [Tree.rk, Forest.rk, rkNode, aLevel, hr]

end Zeno.Model.Life
