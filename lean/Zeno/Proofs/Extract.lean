import Zeno.Model.Extract
set_option linter.unusedSimpArgs false
namespace Zeno.Model.Extract
open Zeno

/-! ### JSON -/

mutual
/-- the value found by following a path of positions (arrays and objects alike) -/
def J.at : J → List Nat → Option J
  | j, [] => some j
  | .arr xs, i :: p => xs.at i p
  | .obj kvs, i :: p => kvs.at i p
  | _, _ :: _ => none
def JList.at : JList → Nat → List Nat → Option J
  | .nil, _, _ => none
  | .cons x _, 0, p => x.at p
  | .cons _ r, i + 1, p => r.at i p
end

mutual
theorem J.at_str_mem (j : J) (p : List Nat) (s : String) (h : j.at p = some (.str s)) : s ∈ j.strings := by
  match j, p with
  | .str t, [] => simp only [J.at, Option.some.injEq, J.str.injEq] at h; simp [J.strings, h]
  | .null, [] => simp [J.at] at h
  | .bool _, [] => simp [J.at] at h
  | .num, [] => simp [J.at] at h
  | .arr xs, [] => simp [J.at] at h
  | .obj kvs, [] => simp [J.at] at h
  | .arr xs, i :: p => simp only [J.at] at h; simp only [J.strings]; exact JList.at_str_mem xs i p s h
  | .obj kvs, i :: p => simp only [J.at] at h; simp only [J.strings]; exact JList.at_str_mem kvs i p s h
  | .null, _ :: _ => simp [J.at] at h
  | .bool _, _ :: _ => simp [J.at] at h
  | .num, _ :: _ => simp [J.at] at h
  | .str _, _ :: _ => simp [J.at] at h
theorem JList.at_str_mem (l : JList) (i : Nat) (p : List Nat) (s : String) (h : l.at i p = some (.str s)) : s ∈ l.strings := by
  match l, i with
  | .nil, _ => simp [JList.at] at h
  | .cons x r, 0 => simp only [JList.at] at h; simp only [JList.strings, List.mem_append]; exact Or.inl (J.at_str_mem x p s h)
  | .cons x r, i + 1 => simp only [JList.at] at h; simp only [JList.strings, List.mem_append]; exact Or.inr (JList.at_str_mem r i p s h)
end

/-- **completeness**: a string value that is a URL, wherever it sits, is found -/
theorem findURLs_complete (o : JOracle) (fuel : Nat) (j : J) (s : String) (hs : s ∈ j.strings) (hu : o.isURL s = true) :
    s ∈ findURLs o fuel j := by
  cases fuel <;> (simp only [findURLs, List.mem_flatMap]; exact ⟨s, hs, by simp [hu]⟩)

/-- … and URLs inside JSON that is embedded in a string value are found too -/
theorem findURLs_embedded (o : JOracle) (fuel : Nat) (j j' : J) (s u : String) (hs : s ∈ j.strings) (hn : o.isURL s = false)
    (he : o.embedded s = some j') (hu : u ∈ findURLs o fuel j') : u ∈ findURLs o (fuel + 1) j := by
  simp only [findURLs, List.mem_flatMap]
  exact ⟨s, hs, by simp [hn, he, hu]⟩

/-- **soundness**: whatever is found is a URL according to the oracle -/
theorem findURLs_sound (o : JOracle) (fuel : Nat) (j : J) (u : String) (h : u ∈ findURLs o fuel j) : o.isURL u = true := by
  induction fuel generalizing j with
  | zero =>
    simp only [findURLs, List.mem_flatMap] at h
    obtain ⟨s, _, hs⟩ := h
    split at hs
    · rename_i hu; simp only [List.mem_singleton] at hs; rw [hs]; exact hu
    · simp at hs
  | succ f ih =>
    simp only [findURLs, List.mem_flatMap] at h
    obtain ⟨s, _, hs⟩ := h
    split at hs
    · rename_i hu; simp only [List.mem_singleton] at hs; rw [hs]; exact hu
    · split at hs
      · exact ih _ hs
      · simp at hs

/-! ### the asset / outlink split -/

theorem split_assets (urls : List String) (u : String) :
    u ∈ (split urls).assets ↔ u ∈ urls ∧ hasFileExtension u.toList = true := by
  simp [split, List.mem_filter]

theorem split_outlinks (urls : List String) (u : String) :
    u ∈ (split urls).outlinks ↔ u ∈ urls ∧ hasFileExtension u.toList = false := by
  simp [split, List.mem_filter]

/-- nothing is lost and nothing is in both classes -/
theorem split_partition (urls : List String) (u : String) (h : u ∈ urls) :
    (u ∈ (split urls).assets ∧ u ∉ (split urls).outlinks) ∨ (u ∈ (split urls).outlinks ∧ u ∉ (split urls).assets) := by
  rw [split_assets, split_outlinks]
  cases hx : hasFileExtension u.toList <;> simp [h, hx]

theorem cutAt_append (c : Char) (a b : List Char) (h : c ∉ a) : cutAt c (a ++ c :: b) = a := by
  induction a with
  | nil => simp [cutAt]
  | cons x xs ih =>
    simp only [List.mem_cons, not_or] at h
    have hx : (x == c) = false := by simpa using (fun e => h.1 e.symm)
    simp only [List.cons_append, cutAt, hx, Bool.false_eq_true, if_false, ih h.2]

theorem cutAt_none (c : Char) (a : List Char) (h : c ∉ a) : cutAt c a = a := by
  induction a with
  | nil => rfl
  | cons x xs ih =>
    simp only [List.mem_cons, not_or] at h
    have hx : (x == c) = false := by simpa using (fun e => h.1 e.symm)
    simp only [cutAt, hx, Bool.false_eq_true, if_false, ih h.2]

/-- fragment and query never influence the classification -/
theorem ext_ignores_fragment (s f : List Char) (h : '#' ∉ s) : hasFileExtension (s ++ '#' :: f) = hasFileExtension s := by
  simp only [hasFileExtension, cutAt_append '#' s f h, cutAt_none '#' s h]

theorem ext_ignores_query (s q : List Char) (h1 : '#' ∉ s) (h2 : '?' ∉ s) (h3 : '#' ∉ q) :
    hasFileExtension (s ++ '?' :: q) = hasFileExtension s := by
  have : '#' ∉ s ++ '?' :: q := by simp [h1, h3]
  simp only [hasFileExtension, cutAt_none '#' _ this, cutAt_none '#' s h1, cutAt_append '?' s q h2, cutAt_none '?' s h2]

/-! ### XML and M3U8 -/

theorem xml_attr_found (toks : List XTok) (attrs : List String) (v : String) (ht : XTok.start attrs ∈ toks) (hv : v ∈ attrs)
    (hp : startsHttp v = true) : v ∈ xmlURLs toks := by
  simp only [xmlURLs, List.mem_flatMap]
  exact ⟨_, ht, by simp [List.mem_filter, hv, hp]⟩

theorem xml_text_found (toks : List XTok) (t : String) (found : List String) (u : String) (ht : XTok.text t found ∈ toks)
    (hu : (startsHttp t = true ∧ u = t) ∨ (startsHttp t = false ∧ u ∈ found)) :
    u ∈ xmlURLs toks := by
  simp only [xmlURLs, List.mem_flatMap]
  refine ⟨_, ht, ?_⟩
  rcases hu with ⟨h, rfl⟩ | ⟨h, hf⟩
  · simp [h]
  · simp [h, hf]

theorem m3u8_segment_found (segs : List String) (u : String) (h : u ∈ segs) (hne : u ≠ "") : u ∈ m3u8URIs (.media segs) := by
  simp [m3u8URIs, List.mem_filter, h, hne]

theorem m3u8_variant_found (vs : List Variant) (v : Variant) (hv : v ∈ vs) :
    (v.uri ≠ "" → v.uri ∈ m3u8URIs (.master vs)) ∧ (∀ a ∈ v.alternatives, a ≠ "" → a ∈ m3u8URIs (.master vs)) := by
  constructor
  · intro h
    simp only [m3u8URIs, List.mem_flatMap]
    exact ⟨v, hv, by simp [h]⟩
  · intro a ha hne
    simp only [m3u8URIs, List.mem_flatMap]
    exact ⟨v, hv, by simp [List.mem_filter, ha, hne]⟩

/-! ### S3 -/

def okS3 (E : EF) : Bool :=
  E.s3LegacyNextWhenNonEmpty && E.s3SkipsEmptyObjects && E.s3V2MixedPages == "both" && E.s3V2ContinuationWhenTruncated &&
  E.s3V2SubfolderLinks

def keysOf (objs : List Obj) : List String := (objs.filter (fun o => o.size > 0)).map (·.key)

theorem objectKeys_append (a b : List Link) : objectKeys (a ++ b) = objectKeys a ++ objectKeys b := by
  simp [objectKeys, List.filterMap_append]

theorem objectKeys_objects (objs : List Obj) : objectKeys (objs.map (fun o => Link.object o.key)) = objs.map (·.key) := by
  induction objs with
  | nil => rfl
  | cons o os ih => simp only [List.map_cons, objectKeys, List.filterMap_cons] at ih ⊢; rw [ih]

theorem objectKeys_subfolders (ps : List String) : objectKeys (ps.map Link.subfolder) = [] := by
  induction ps with
  | nil => rfl
  | cons p ps ih => simp only [List.map_cons, objectKeys, List.filterMap_cons] at ih ⊢; exact ih

/-- the object keys a legacy page yields: exactly its non-empty objects -/
theorem legacy_page_keys (E : EF) (h : okS3 E = true) (p : Page) : objectKeys (s3Legacy E p) = keysOf p.contents := by
  simp only [okS3, Bool.and_eq_true, beq_iff_eq] at h
  obtain ⟨⟨⟨⟨h1, h2⟩, _⟩, _⟩, _⟩ := h
  simp only [s3Legacy, h1, h2, Bool.not_true, Bool.false_or, objectKeys_append, objectKeys_objects, keysOf]
  cases p.contents.getLast? <;> simp [objectKeys]

/-- **marker-paginated walk**: with enough fuel (one request per page plus the final empty page) the crawler queues exactly
the non-empty objects of the bucket, in order -/
theorem legacyWalk_all (E : EF) (h : okS3 E = true) (k : Nat) (fuel : Nat) (objs : List Obj) (hf : objs.length < fuel) :
    legacyWalk E k fuel objs = keysOf objs := by
  induction fuel generalizing objs with
  | zero => omega
  | succ f ih =>
    unfold legacyWalk
    simp only [legacy_page_keys E h]
    have h1 : E.s3LegacyNextWhenNonEmpty = true := by
      simp only [okS3, Bool.and_eq_true] at h; exact h.1.1.1.1
    cases objs with
    | nil => simp [keysOf, s3Legacy]
    | cons o os =>
      have hne : ((o :: os).take (k + 1)).getLast? ≠ none := by simp
      have hany : (s3Legacy E { contents := (o :: os).take (k + 1) }).any Link.isNextMarker = true := by
        simp only [s3Legacy, h1, if_true]
        cases hl : ((o :: os).take (k + 1)).getLast? with
        | none => exact absurd hl hne
        | some x => simp [Link.isNextMarker]
      rw [if_pos hany, ih _ (by simp only [List.length_drop, List.length_cons] at hf ⊢; omega)]
      simp only [keysOf]
      rw [← List.map_append, ← List.filter_append, List.take_append_drop]

theorem chunk_flatten (k : Nat) (fuel : Nat) (es : List Entry) (hf : es.length ≤ fuel) : (chunk k fuel es).flatten = es := by
  induction fuel generalizing es with
  | zero => cases es with | nil => rfl | cons _ _ => simp at hf
  | succ f ih =>
    cases es with
    | nil => rfl
    | cons e es =>
      simp only [chunk, List.flatten_cons]
      rw [ih _ (by simp only [List.length_drop, List.length_cons] at hf ⊢; omega), List.take_append_drop]

/-- on every list-type=2 page each non-empty object is queued — also on a page that carries common prefixes -/
theorem v2_page_has_object (E : EF) (h : okS3 E = true) (es : List Entry) (o : Obj) (ho : Entry.obj o ∈ es) (hs : o.size > 0) :
    o.key ∈ objectKeys (s3V2 E (pageOf es true "t")) := by
  simp only [okS3, Bool.and_eq_true, beq_iff_eq] at h
  obtain ⟨⟨⟨⟨_, h2⟩, h3⟩, _⟩, _⟩ := h
  simp only [s3V2, h2, h3, beq_self_eq_true, Bool.or_true, if_true, objectKeys_append, objectKeys_subfolders, List.nil_append,
    objectKeys_objects, List.mem_append, List.mem_map, List.mem_filter, Bool.not_true, Bool.false_or]
  refine Or.inl ⟨o, ⟨?_, by simp [hs]⟩, rfl⟩
  simp only [pageOf, List.mem_filterMap]
  exact ⟨Entry.obj o, ho, rfl⟩

theorem folder_has_object (E : EF) (h : okS3 E = true) (k : Nat) (es : List Entry) (o : Obj) (ho : Entry.obj o ∈ es) (hs : o.size > 0) :
    o.key ∈ folderObjects E k es := by
  simp only [folderObjects, List.mem_flatMap]
  have hfl := chunk_flatten k es.length es (Nat.le_refl _)
  have : Entry.obj o ∈ (chunk k es.length es).flatten := by rw [hfl]; exact ho
  obtain ⟨pg, hpg, hin⟩ := List.mem_flatten.1 this
  exact ⟨pg, hpg, v2_page_has_object E h pg o hin hs⟩

mutual
/-- **bucket with folders, list-type=2**: every non-empty object of the bucket, at any folder depth, is queued — provided the
server lists every object of a folder among that folder's entries -/
theorem Dir.walk_complete (E : EF) (h : okS3 E = true) (k : Nat) (order : List Obj → List String → List Entry)
    (hord : ∀ objs names o, o ∈ objs → Entry.obj o ∈ order objs names) (d : Dir) :
    ∀ o ∈ d.allObjects, o.key ∈ d.walk E k order := by
  match d with
  | .node objs subs =>
    intro o ho
    simp only [Dir.allObjects, List.mem_append, List.mem_filter, decide_eq_true_eq] at ho
    simp only [Dir.walk, List.mem_append]
    rcases ho with ⟨hm, hs⟩ | ho
    · exact Or.inl (folder_has_object E h k _ o (hord objs subs.names o hm) hs)
    · exact Or.inr (DirList.walk_complete E h k order hord subs o ho)
theorem DirList.walk_complete (E : EF) (h : okS3 E = true) (k : Nat) (order : List Obj → List String → List Entry)
    (hord : ∀ objs names o, o ∈ objs → Entry.obj o ∈ order objs names) (l : DirList) :
    ∀ o ∈ l.allObjects, o.key ∈ l.walk E k order := by
  match l with
  | .nil => intro o ho; simp [DirList.allObjects] at ho
  | .cons n d r =>
    intro o ho
    simp only [DirList.allObjects, List.mem_append] at ho
    simp only [DirList.walk, List.mem_append]
    rcases ho with ho | ho
    · exact Or.inl (Dir.walk_complete E h k order hord d o ho)
    · exact Or.inr (DirList.walk_complete E h k order hord r o ho)
end

end Zeno.Model.Extract
