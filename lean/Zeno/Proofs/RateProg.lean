import Zeno.Model.RateProg
import Zeno.Gen.RateProg
import Zeno.Gen.RateLimiter
import Zeno.Proofs.RateLimiter
/-!
The token-bucket methods as translated from the source compute exactly the hand-written model functions
(`Model/RateLimiter.lean`) — for every bucket, time and status. Core Lean only.

The proofs run the translated programs symbolically (`simp` with the interpreter's equations) after splitting on the conditions
the source tests; nothing here depends on how the source names or orders things beyond what the interpreter gives meaning to.
-/
set_option linter.unusedSimpArgs false
namespace Zeno.Model.RateProg
open Zeno Zeno.Model.RateLimiter

abbrev P : Progs := Zeno.Gen.RateProg.facts
abbrev G : Facts := Facts.modelled Zeno.Gen.RateLimiter.facts

theorem refill_translated (b : TB) (now : Rat) : runRefill P b now = some (refill b now) := by
  unfold refill TB.base
  by_cases h1 : now < b.pen <;> by_cases h2 : b.last < b.pen <;> by_cases h3 : 0 < now - b.pen <;>
    by_cases h4 : 0 < now - b.last <;>
  simp [runRefill, runMethod, P, Zeno.Gen.RateProg.facts, ABlock.exec, AStmt.exec, RExp.eval, CExp.eval, getF, setF, setLocal,
    Cmp.eval, h1, h2, h3, h4]

theorem runRefill_eq : runRefill P = fun b now => some (refill b now) := by
  funext b now; exact refill_translated b now

/-- one attempt of `Wait()`: refill, then take a token if there is at least one; "returned" = a request is released -/
theorem wait_translated (b : TB) (now : Rat) : runWaitAttempt P b now = some (tryAcquire G b now) := by
  unfold runWaitAttempt tryAcquire
  rw [runRefill_eq]
  by_cases h : 1 ≤ (refill b now).tokens <;>
  simp [runMethod, P, G, Facts.modelled, Zeno.Gen.RateProg.facts, Zeno.Gen.RateLimiter.facts, ABlock.exec, AStmt.exec, RExp.eval, CExp.eval,
    getF, setF, setLocal, Cmp.eval, h]

theorem success_translated (b : TB) (now : Rat) : runOnSuccess P b now = some (onSuccess G b now) := by
  unfold runOnSuccess onSuccess
  by_cases h1 : b.pen < now <;> by_cases h2 : b.rate < b.ideal <;>
  by_cases h3 : b.ideal < b.rate + (b.ideal - b.rate) * (1/10) <;> by_cases h4 : 0 < b.fails <;>
  simp [runMethod, P, G, Facts.modelled, Zeno.Gen.RateProg.facts, Zeno.Gen.RateLimiter.facts, ABlock.exec, AStmt.exec, RExp.eval, CExp.eval,
    IExp.eval, getF, setF, getI, setI, setLocal, Cmp.eval, h1, h2, h3, h4] <;>
  first
    | omega
    | (have h5 : (1 : Int) ≤ (b.fails : Int) := by omega
       simp [h5])
    | (cases b; simp at h4 ⊢; omega)

theorem new_translated (cap rate now : Rat) : runNew P cap rate now = some (TB.new cap rate now) := by
  simp [runNew, P, Zeno.Gen.RateProg.facts, RExp.eval, setF, TB.new]

/-! ### the penalty expression: float nanoseconds, capped, converted to a duration -/

theorem truncNs_int (k : Int) (h0 : 0 ≤ k) (h1 : k < 9223372036854775808) : truncNs (k : Rat) = k := by
  unfold truncNs
  have : (0 : Rat) ≤ (k : Rat) := by
    have := (Rat.intCast_le_intCast (a := 0) (b := k)).mpr h0
    simpa using this
  simp only [this, if_true, Rat.floor_intCast]
  split
  · omega
  · rfl

theorem min_cast (a b : Int) : min (a : Rat) (b : Rat) = ((min a b : Int) : Rat) := by
  by_cases h : a ≤ b
  · have h' := (Rat.intCast_le_intCast).mpr h
    rw [Int.min_def, if_pos h]; grind
  · have hb : b ≤ a := by omega
    have h' := (Rat.intCast_le_intCast).mpr hb
    rw [Int.min_def, if_neg h]; grind

theorem penalty_prog (n : Nat) :
    nsToSec (truncNs (min ((5000000000 : Rat) * (2 : Rat) ^ n) 30000000000)) = penalty G (n + 1) := by
  have e : min ((5000000000 : Rat) * (2 : Rat) ^ n) 30000000000
      = ((min ((5000000000 : Int) * 2 ^ n) 30000000000 : Int) : Rat) := by
    rw [← min_cast]; simp
  rw [e, truncNs_int]
  · simp [penalty, G, Facts.modelled, Zeno.Gen.RateLimiter.facts]
  · have : (0 : Int) ≤ 2 ^ n := Int.pow_nonneg (by omega)
    omega
  · omega


theorem isPenalised_G (st : Nat) : isPenalised G st = decide (st = 429 ∨ st = 403 ∨ st = 408 ∨ st = 425) := by
  simp [isPenalised, G, Facts.modelled, Zeno.Gen.RateLimiter.facts]
theorem isServerError_G (st : Nat) : isServerError G st = decide (500 ≤ st) := by
  simp [isServerError, G, Facts.modelled, Zeno.Gen.RateLimiter.facts, Cmp.eval]
  rfl
theorem rateFloor_G (b : TB) : rateFloor G b = min (1 / 2) b.ideal := by
  simp [rateFloor, G, Facts.modelled, Zeno.Gen.RateLimiter.facts]

theorem failure_penalised (b : TB) (now : Rat) (st : Nat) (h : st = 429 ∨ st = 403 ∨ st = 408 ∨ st = 425) :
    runOnFailure P b now st = some (onFailure G b now st) := by
  unfold runOnFailure onFailure
  have hf : (0 : Int) ≤ (b.fails : Int) + 1 := by omega
  have hg : (1 : Int) ≤ (b.fails : Int) + 1 := by omega
  have hp := penalty_prog b.fails
  rw [isPenalised_G]
  rcases h with h | h | h | h <;> subst h <;>
  simp [runMethod, P, Zeno.Gen.RateProg.facts, ABlock.exec, AStmt.exec, RExp.eval, CExp.eval,
    IExp.eval, getF, setF, getI, setI, setLocal, Cmp.eval, hf, hg, hp]

theorem failure_other (b : TB) (now : Rat) (st : Nat) (h : ¬ (st = 429 ∨ st = 403 ∨ st = 408 ∨ st = 425)) :
    runOnFailure P b now st = some (onFailure G b now st) := by
  unfold runOnFailure onFailure
  have hf : (0 : Int) ≤ (b.fails : Int) + 1 := by omega
  have h1 : ¬ ((st : Int) = 429) := by omega
  have h2 : ¬ ((st : Int) = 403) := by omega
  have h3 : ¬ ((st : Int) = 408) := by omega
  have h4 : ¬ ((st : Int) = 425) := by omega
  rw [isPenalised_G, isServerError_G, rateFloor_G]
  by_cases h5 : 500 ≤ st
  · have h5' : (500 : Int) ≤ (st : Int) := by omega
    simp [runMethod, P, Zeno.Gen.RateProg.facts, ABlock.exec, AStmt.exec, RExp.eval, CExp.eval,
      IExp.eval, getF, setF, getI, setI, setLocal, Cmp.eval, hf, h, h1, h2, h3, h4, h5, h5']
  · have h5' : ¬ ((500 : Int) ≤ (st : Int)) := by omega
    simp [runMethod, P, Zeno.Gen.RateProg.facts, ABlock.exec, AStmt.exec, RExp.eval, CExp.eval,
      IExp.eval, getF, setF, getI, setI, setLocal, Cmp.eval, hf, h, h1, h2, h3, h4, h5, h5']

theorem failure_translated (b : TB) (now : Rat) (st : Nat) : runOnFailure P b now st = some (onFailure G b now st) := by
  by_cases h : st = 429 ∨ st = 403 ∨ st = 408 ∨ st = 425
  · exact failure_penalised b now st h
  · exact failure_other b now st h

theorem step_translated (b : TB) (now : Rat) (e : Ev) : stepProg P b now e = some (step G b now e) := by
  cases e with
  | «try» => simp [stepProg, step, wait_translated]
  | fail st => simp [stepProg, step, failure_translated]
  | ok => simp [stepProg, step, success_translated]

theorem run_translated (evs : List (Rat × Ev)) (b : TB) : runProg P b evs = some (run G b evs) := by
  induction evs generalizing b with
  | nil => rfl
  | cons te rest ih =>
    obtain ⟨t, e⟩ := te
    simp only [runProg, run, step_translated, ih]

end Zeno.Model.RateProg
