import Zeno.Model.Stages
import Zeno.Proofs.Item
/-! Lemmas about the stage semantics (core Lean only). -/
set_option linter.unusedSimpArgs false
set_option linter.unusedVariables false
set_option linter.unnecessarySimpa false
namespace Zeno.Model.Stages
open Zeno Zeno.Model.Item

/-! ### where nodes of a level come from -/

def ids (l : List Info) : List String := l.map (·.id)

mutual
theorem Tree.atLevel_prune (rm : List String) (t : Tree) (n : Nat) :
    ∀ j ∈ (t.prune rm).atLevel (n + 1), ∃ i ∈ t.atLevel (n + 1), i = j ∧ rm.contains i.id = false := by
  match t with
  | .node i k =>
    intro j hj
    simp only [Tree.prune, Tree.atLevel] at hj ⊢
    exact Forest.atLevel_prune rm k n j hj
theorem Forest.atLevel_prune (rm : List String) (f : Forest) (n : Nat) :
    ∀ j ∈ (f.prune rm).atLevel n, ∃ i ∈ f.atLevel n, i = j ∧ rm.contains i.id = false := by
  match f with
  | .nil => intro j hj; simp [Forest.prune, Forest.atLevel] at hj
  | .cons t f =>
    intro j hj
    simp only [Forest.prune] at hj
    split at hj
    · obtain ⟨i, hi, h1, h2⟩ := Forest.atLevel_prune rm f n j hj
      exact ⟨i, by simp [Forest.atLevel, hi], h1, h2⟩
    · rename_i hc
      simp only [Forest.atLevel, List.mem_append] at hj ⊢
      rcases hj with hj | hj
      · cases n with
        | zero =>
          match t, hc, hj with
          | .node i0 k, hc, hj =>
            simp only [Tree.prune, Tree.atLevel, List.mem_singleton] at hj
            refine ⟨i0, Or.inl (by simp [Tree.atLevel]), hj.symm, ?_⟩
            simpa [Tree.info] using hc
        | succ m =>
          obtain ⟨i, hi, h1, h2⟩ := Tree.atLevel_prune rm t m j hj
          exact ⟨i, Or.inl hi, h1, h2⟩
      · obtain ⟨i, hi, h1, h2⟩ := Forest.atLevel_prune rm f n j hj
        exact ⟨i, Or.inr hi, h1, h2⟩
end

def normInfo (ks : List (String × NormRes)) (i : Info) : Info :=
  match ks.lookup i.id with
  | some r => { i with url := r.canon, host := r.host, path := r.path, raw := r.href }
  | none => i

mutual
theorem Tree.atLevel_setNorm (ks : List (String × NormRes)) (t : Tree) (n : Nat) :
    (t.setNorm ks).atLevel n = (t.atLevel n).map (normInfo ks) := by
  match t, n with
  | .node i k, 0 =>
    simp only [Tree.setNorm, Tree.atLevel, normInfo, List.map_cons, List.map_nil]
    cases List.lookup i.id ks <;> rfl
  | .node i k, n + 1 => simp only [Tree.setNorm, Tree.atLevel]; exact Forest.atLevel_setNorm ks k n
theorem Forest.atLevel_setNorm (ks : List (String × NormRes)) (f : Forest) (n : Nat) :
    (f.setNorm ks).atLevel n = (f.atLevel n).map (normInfo ks) := by
  match f with
  | .nil => simp [Forest.setNorm, Forest.atLevel]
  | .cons t f =>
    simp only [Forest.setNorm, Forest.atLevel, List.map_append, Tree.atLevel_setNorm ks t n, Forest.atLevel_setNorm ks f n]
end

theorem normInfo_id (ks : List (String × NormRes)) (i : Info) : (normInfo ks i).id = i.id := by
  unfold normInfo; split <;> rfl

mutual
theorem Tree.atLevel_mark_ids (F : IF) (t : Tree) (n : Nat) : ids ((t.mark F).atLevel n) = ids (t.atLevel n) := by
  match t, n with
  | .node i k, 0 => simp only [Tree.mark]; split <;> simp [Tree.atLevel, ids]
  | .node i k, n + 1 =>
    simp only [Tree.mark]
    split <;> simp only [Tree.atLevel] <;> exact Forest.atLevel_mark_ids F k n
theorem Forest.atLevel_mark_ids (F : IF) (f : Forest) (n : Nat) : ids ((f.mark F).atLevel n) = ids (f.atLevel n) := by
  match f with
  | .nil => simp [Forest.mark, Forest.atLevel]
  | .cons t f =>
    simp only [Forest.mark, Forest.atLevel, ids, List.map_append]
    have h1 := Tree.atLevel_mark_ids F t n
    have h2 := Forest.atLevel_mark_ids F f n
    simp only [ids] at h1 h2
    rw [h1, h2]
end

mutual
theorem Tree.atLevel_setStatuses_ids (l : List String) (s : Status) (rq : Bool) (t : Tree) (n : Nat) :
    ids ((t.setStatuses l s rq).atLevel n) = ids (t.atLevel n) := by
  match t, n with
  | .node i k, 0 => simp only [Tree.setStatuses, Tree.atLevel, ids, List.map_cons, List.map_nil]; split <;> rfl
  | .node i k, n + 1 => simp only [Tree.setStatuses, Tree.atLevel]; exact Forest.atLevel_setStatuses_ids l s rq k n
theorem Forest.atLevel_setStatuses_ids (l : List String) (s : Status) (rq : Bool) (f : Forest) (n : Nat) :
    ids ((f.setStatuses l s rq).atLevel n) = ids (f.atLevel n) := by
  match f with
  | .nil => simp [Forest.setStatuses, Forest.atLevel]
  | .cons t f =>
    simp only [Forest.setStatuses, Forest.atLevel, ids, List.map_append]
    have h1 := Tree.atLevel_setStatuses_ids l s rq t n
    have h2 := Forest.atLevel_setStatuses_ids l s rq f n
    simp only [ids] at h1 h2
    rw [h1, h2]
end

/-- ids at a level below the seed after `dedupe` come from the ids at that level before -/
theorem dedupe_level_ids (F : IF) (t : Tree) (n : Nat) :
    ∀ x ∈ ids ((dedupe F t).atLevel (n + 1)), x ∈ ids (t.atLevel (n + 1)) := by
  intro x hx
  unfold dedupe at hx
  rw [Tree.atLevel_mark_ids] at hx
  simp only [ids, List.mem_map] at hx ⊢
  obtain ⟨j, hj, rfl⟩ := hx
  obtain ⟨i, hi, h1, _⟩ := Tree.atLevel_prune _ t n j hj
  exact ⟨i, hi, by rw [h1]⟩

/-! ### what `scan` keeps -/

theorem scan_spec (cfg : Cfg) (norm : String → Option NormRes) (t : Tree) (items : List Info)
    (h : (scan cfg norm t items).2.2 = none) :
    ∀ i ∈ items, i.id ∈ (scan cfg norm t items).1 ∨
      ∃ r, (i.id, r) ∈ (scan cfg norm t items).2.1 ∧ verdict cfg norm t i = .keep r := by
  induction items with
  | nil => intro i hi; cases hi
  | cons x xs ih =>
    intro i hi
    unfold scan at h ⊢
    cases hv : verdict cfg norm t x with
    | panic => simp [hv] at h
    | stop st => simp [hv] at h
    | remove =>
      simp only [hv] at h ⊢
      rcases List.mem_cons.mp hi with hi | hi
      · subst hi; left; simp
      · rcases ih h i hi with h1 | ⟨r, h1, h2⟩
        · left; simp [h1]
        · right; exact ⟨r, h1, h2⟩
    | keep r =>
      simp only [hv] at h ⊢
      rcases List.mem_cons.mp hi with hi | hi
      · subst hi; right; exact ⟨r, by simp, hv⟩
      · rcases ih h i hi with h1 | ⟨r', h1, h2⟩
        · left; exact h1
        · right; exact ⟨r', by simp [h1], h2⟩

/-- a kept node passed the filters, with the normaliser's own answer for it -/
theorem keep_in_scope (cfg : Cfg) (norm : String → Option NormRes) (t : Tree) (i : Info) (r : NormRes)
    (h : verdict cfg norm t i = .keep r) : norm i.id = some r ∧ passesFilters cfg r = true := by
  unfold verdict at h
  split at h
  · cases h
  · cases hn : norm i.id with
    | none => simp only [hn] at h; split at h <;> cases h
    | some r0 =>
      simp only [hn] at h
      split at h
      · split at h <;> cases h
      · rename_i hp
        split at h
        · cases h
        · cases h; exact ⟨rfl, by simpa using hp⟩

theorem finalStep_ids (t2 : Tree) (sr : Seen × List String) (d : Nat) :
    ∀ x ∈ (finalStep t2 sr d).2.2.1, x ∈ ids (t2.atLevel d) := by
  intro x hx
  unfold finalStep at hx
  simp only at hx
  split at hx
  · simp at hx
  · simp only [List.mem_map, List.mem_filter] at hx
    obtain ⟨j, ⟨hj, _⟩, rfl⟩ := hx
    have : j.id ∈ ids ((t2.setStatuses sr.2 .seen false).atLevel d) := by
      simp only [ids, List.mem_map]; exact ⟨j, hj, rfl⟩
    rw [Tree.atLevel_setStatuses_ids] at this
    exact this

theorem preTail_ids (S : SF) (cfg : Cfg) (seen : Seen) (t2 : Tree) (d : Nat) :
    ∀ x ∈ (preTail S cfg seen t2 d).2.2.1, x ∈ ids (t2.atLevel d) := by
  intro x hx
  unfold preTail at hx
  split at hx
  · simp at hx
  · split at hx
    · exact finalStep_ids t2 _ d x hx
    · simp only at hx
      split at hx
      · simp at hx
      · exact finalStep_ids t2 _ d x hx

/-- **Only in-scope URLs get a request.** Every node to which `preprocess` attaches a request was
normalised by the URL normaliser and passed the operator's include / exclude filters with exactly
that normalised URL — for every tree, every configuration, every normaliser and seen-store. -/
theorem requests_in_scope (S : SF) (I : IF) (cfg : Cfg) (norm : String → Option NormRes) (seen : Seen) (t : Tree)
    (hd : 0 < t.maxDepth) :
    ∀ x ∈ (preCore S I cfg norm seen t).2.2.1, ∃ r, norm x = some r ∧ passesFilters cfg r = true := by
  intro x hx
  unfold preCore at hx
  simp only at hx
  cases hstop : (scan cfg norm t (t.atLevel t.maxDepth)).2.2 with
  | some v =>
    rw [hstop] at hx
    cases v <;> simp at hx
  | none =>
    rw [hstop] at hx
    simp only at hx
    have h3 := preTail_ids S cfg seen _ _ x hx
    obtain ⟨n, hn⟩ : ∃ n, t.maxDepth = n + 1 := ⟨t.maxDepth - 1, by omega⟩
    rw [hn] at h3
    have h2 := dedupe_level_ids I _ n _ h3
    simp only [ids, List.mem_map] at h2
    obtain ⟨j1, hj1, hid1⟩ := h2
    obtain ⟨j0, hj0, he, hnr⟩ := Tree.atLevel_prune _ _ n j1 hj1
    rw [Tree.atLevel_setNorm] at hj0
    simp only [List.mem_map] at hj0
    obtain ⟨i, hi, hni⟩ := hj0
    have hid : i.id = x := by rw [← hid1, ← he, ← hni, normInfo_id]
    rw [← hn] at hi
    rcases scan_spec cfg norm t _ hstop i hi with hrm | ⟨r, _, hv⟩
    · exfalso
      have hc : (scan cfg norm t (t.atLevel t.maxDepth)).1.contains j0.id = true := by
        rw [← hni, normInfo_id]; simpa using hrm
      rw [hn] at hc
      rw [hc] at hnr; cases hnr
    · obtain ⟨h1, h2⟩ := keep_in_scope cfg norm t i r hv
      exact ⟨r, by rw [← hid]; exact h1, h2⟩

/-- the seed itself (working depth 0): the single node is the seed -/
theorem requests_in_scope_seed (S : SF) (I : IF) (cfg : Cfg) (norm : String → Option NormRes) (seen : Seen) (i : Info) :
    ∀ x ∈ (preCore S I cfg norm seen (.node i .nil)).2.2.1, ∃ r, norm x = some r ∧ passesFilters cfg r = true := by
  intro x hx
  unfold preCore at hx
  simp only [Tree.maxDepth, Tree.atLevel] at hx
  cases hv : verdict cfg norm (.node i .nil) i with
  | panic => simp [scan, hv] at hx
  | stop st => simp [scan, hv] at hx
  | remove =>
    simp only [scan, hv] at hx
    have h3 := preTail_ids S cfg seen _ _ x hx
    -- the seed is never pruned, but it is not in the kept list either: the id must be the seed's
    simp only [dedupe, Tree.prune, Tree.setNorm, Forest.setNorm, Forest.prune, Tree.kids, Forest.flatten, dedupeRemoved,
      List.foldl_nil] at h3
    rw [Tree.atLevel_mark_ids] at h3
    simp only [Tree.atLevel, ids, List.map_cons, List.map_nil, List.mem_singleton, List.lookup] at h3
    -- a seed whose verdict is `remove` does not exist: `remove` needs a parent
    exfalso
    unfold verdict at hv
    simp only [Tree.parentStatus, Forest.parentStatusIn] at hv
    split at hv
    · cases hv
    · cases hn : norm i.id with
      | none => simp [hn] at hv
      | some r0 => simp [hn] at hv; split at hv <;> simp at hv
  | keep r =>
    simp only [scan, hv] at hx
    have h3 := preTail_ids S cfg seen _ _ x hx
    simp only [dedupe, Tree.prune, Tree.setNorm, Forest.setNorm, Forest.prune, Tree.kids, Forest.flatten, dedupeRemoved,
      List.foldl_nil] at h3
    rw [Tree.atLevel_mark_ids] at h3
    have hx' : x = i.id := by
      simp only [Tree.atLevel, ids, List.map_cons, List.map_nil, List.mem_singleton] at h3
      rw [h3]; split <;> rfl
    obtain ⟨h1, h2⟩ := keep_in_scope cfg norm _ i r hv
    exact ⟨r, by rw [hx']; exact h1, h2⟩

/-! ### bounds on the work per seed (C06) -/

def okPost (S : SF) : Bool :=
  S.redirectStatuses == [300, 301, 302, 303, 307, 308] && S.postOnlyArchived && S.redirectLimitOp == .ge &&
  S.redirectLimitCompletes && S.redirectChildFields && S.depthCutOp == .gt && S.depthCut == 2 && S.depthCutShape &&
  S.depthOneHtmlRule && S.disableAssetsRule == "whenNoHops" && S.only200Extracted && S.assetsBecomeChildren && S.outlinkDomainsCrawlRule &&
  S.outlinksIncludeAssetOutlinks && S.postCompletionRule && S.postWorksAtMaxDepth && S.outlinkHopsOp == .lt &&
  S.outlinkGuardShape && S.outlinkHopsPlusOne && S.assetHopsSame && S.assetOutlinkHopsPlusOne && S.assetSelfDuplicateRemoved &&
  S.assetGuardShape && S.postTestsUnderstood

theorem okPost_ops {S : SF} (h : okPost S = true) :
    S.redirectLimitOp = .ge ∧ S.depthCutOp = .gt ∧ S.depthCut = 2 ∧ S.outlinkHopsOp = .lt := by
  simp only [okPost, Bool.and_eq_true, beq_iff_eq] at h
  obtain ⟨⟨⟨⟨⟨⟨⟨⟨⟨⟨⟨⟨⟨⟨⟨⟨⟨⟨⟨⟨⟨⟨⟨_, _⟩, h3⟩, _⟩, _⟩, h6⟩, h7⟩, _⟩, _⟩, _⟩, _⟩, _⟩, _⟩, _⟩, _⟩, _⟩, h17⟩, _⟩, _⟩, _⟩, _⟩, _⟩, _⟩, _⟩ := h
  exact ⟨h3, h6, h7, h17⟩

/-- a redirect is followed only below the limit; the target carries one more redirect and the page's hops -/
theorem redirect_child (S : SF) (hS : okPost S = true) (cfg : Cfg) (ex : String → Extract) (i : Info) (dnr : Int) (c : Info)
    (h : postAct S cfg ex i dnr = .redirect c) :
    i.redirects < cfg.maxRedirect ∧ c.redirects = i.redirects + 1 ∧ c.redirects ≤ cfg.maxRedirect ∧ c.hops = i.hops ∧ c.st = .fresh := by
  obtain ⟨h1, _, _, _⟩ := okPost_ops hS
  unfold postAct at h
  split at h
  · split at h
    · cases h
    · rename_i hlim
      simp only [h1, Cmp.eval, decide_eq_true_eq] at hlim
      cases h
      exact ⟨by omega, rfl, by simp only; omega, rfl, rfl⟩
  · split at h
    · cases h
    · split at h
      · cases h
      · split at h
        · cases h
        · split at h <;> cases h

/-- beyond depth 2 (domains-crawl off) nothing is extracted: no asset children, no outlinks -/
theorem no_extraction_beyond_depth (S : SF) (hS : okPost S = true) (cfg : Cfg) (ex : String → Extract) (i : Info) (dnr : Int)
    (hdc : cfg.domainsCrawl = false) (hd : 2 < dnr) :
    postAct S cfg ex i dnr = .complete ∨ ∃ c, postAct S cfg ex i dnr = .redirect c := by
  obtain ⟨_, h2, h3, _⟩ := okPost_ops hS
  unfold postAct
  split
  · split
    · exact Or.inl rfl
    · exact Or.inr ⟨_, rfl⟩
  · have : (!cfg.domainsCrawl && S.depthCutOp.eval dnr (S.depthCut : Int)) = true := by
      simp [hdc, h2, h3, Cmp.eval]; omega
    simp [this]

/-- what extraction produces: assets inherit the page's hops (and start with no redirect), outlinks
get hops + 1 and only from a page below the hop limit, or 0 when they match domains-crawl -/
theorem extraction_hops (S : SF) (hS : okPost S = true) (cfg : Cfg) (ex : String → Extract) (i : Info) (dnr : Int)
    (kids : List Info) (outs : List Outlink) (h : postAct S cfg ex i dnr = .extract kids outs) :
    (∀ k ∈ kids, k.hops = i.hops ∧ k.redirects = 0 ∧ k.st = .fresh) ∧
    (∀ o ∈ outs, o.via = i.url ∧
      ((cfg.domainsCrawl = true ∧ o.raw ∈ cfg.dcMatch ∧ o.hops = 0) ∨ (o.hops = i.hops + 1 ∧ i.hops < cfg.maxHops))) := by
  obtain ⟨_, _, _, h4⟩ := okPost_ops hS
  unfold postAct at h
  split at h
  · split at h <;> cases h
  · split at h
    · cases h
    · split at h
      · cases h
      · split at h
        · cases h
        · split at h
          · cases h
            constructor
            · intro k hk
              split at hk
              · simp only [List.mem_map, List.mem_filter] at hk
                obtain ⟨a, _, rfl⟩ := hk
                exact ⟨rfl, rfl, rfl⟩
              · cases hk
            · intro o ho
              split at ho
              · rename_i hw
                simp only [List.mem_filterMap] at ho
                obtain ⟨raw, _, hraw⟩ := ho
                split at hraw
                · rename_i hm
                  simp only [Bool.and_eq_true, List.contains_eq_mem, decide_eq_true_eq] at hm
                  cases hraw
                  exact ⟨rfl, Or.inl ⟨hm.1, hm.2, rfl⟩⟩
                · split at hraw
                  · cases hraw
                  · rename_i hnm hskip
                    cases hraw
                    refine ⟨rfl, Or.inr ⟨rfl, ?_⟩⟩
                    simp only [h4, Cmp.eval, Bool.or_eq_true, Bool.and_eq_true, decide_eq_true_eq] at hw
                    rcases hw with hw | hw
                    · simp only [hw.1, Bool.true_and, Bool.and_eq_true, Bool.not_eq_true', decide_eq_true_eq, not_and,
                        Bool.not_eq_true, Bool.not_eq_false, List.contains_eq_mem] at hnm hskip
                      have := hskip (by simpa using hnm)
                      omega
                    · exact hw.1
              · cases ho
          · cases h
            exact ⟨(by intro k hk; cases hk), (by intro o ho; cases ho)⟩

/-! ### the bound as a whole-tree invariant of postprocess -/

theorem Forest.flatten_append (a b : Forest) : (a.append b).flatten = a.flatten ++ b.flatten := by
  induction a using Forest.rec (motive_1 := fun _ => True) with
  | node => trivial
  | nil => simp [Forest.append, Forest.flatten]
  | cons t f _ ih => simp [Forest.append, Forest.flatten, ih]

theorem flatten_foldl_kids (kids : List Info) (k : Forest) :
    (kids.foldl (fun acc c => acc.append (.cons (.node c .nil) .nil)) k).flatten = k.flatten ++ kids := by
  induction kids generalizing k with
  | nil => simp
  | cons c cs ih => simp [List.foldl_cons, ih, Forest.flatten_append, Forest.flatten, Tree.flatten]

/-- the per-node facts C06 bounds: at most `maxRedirect` redirects behind it, and the seed's hop count -/
def Bounded (cfg : Cfg) (hops : Nat) (j : Info) : Prop := j.redirects ≤ cfg.maxRedirect ∧ j.hops = hops

mutual
theorem Tree.post_bounded (S : SF) (hS : okPost S = true) (cfg : Cfg) (ex : String → Extract) (hops d lvl : Nat) (pdnr : Int)
    (isSeed : Bool) (t : Tree) (h : ∀ j ∈ t.flatten, Bounded cfg hops j) :
    ∀ j ∈ (t.post S cfg ex d lvl pdnr isSeed).1.flatten, Bounded cfg hops j := by
  match t with
  | .node i k =>
    have hi : Bounded cfg hops i := h i (by simp [Tree.flatten])
    have hk : ∀ j ∈ k.flatten, Bounded cfg hops j := fun j hj => h j (by simp [Tree.flatten, hj])
    unfold Tree.post
    split
    · split
      · show ∀ j ∈ (match postAct S cfg ex i (nodeDnr isSeed i.st pdnr) with
            | PostAct.complete => _ | PostAct.redirect c => _ | PostAct.extract kids outs => _ : Tree × List Outlink).1.flatten, _
        split
        · intro j hj
          simp only [Tree.flatten, List.mem_cons] at hj
          rcases hj with rfl | hj
          · exact hi
          · exact hk j hj
        · rename_i c hc
          obtain ⟨_, _, h3, h4, _⟩ := redirect_child S hS cfg ex i _ c hc
          intro j hj
          simp only [Tree.flatten, Forest.flatten_append, Forest.flatten, List.mem_cons, List.mem_append, List.append_nil,
            List.not_mem_nil, or_false] at hj
          rcases hj with rfl | hj | rfl
          · exact hi
          · exact hk j hj
          · exact ⟨h3, h4.trans hi.2⟩
        · rename_i kids outs hc
          obtain ⟨hkids, _⟩ := extraction_hops S hS cfg ex i _ kids outs hc
          intro j hj
          simp only [Tree.flatten, flatten_foldl_kids, List.mem_cons, List.mem_append] at hj
          rcases hj with rfl | hj | hj
          · exact hi
          · exact hk j hj
          · obtain ⟨a, b, _⟩ := hkids j hj
            exact ⟨by omega, a.trans hi.2⟩
      · intro j hj
        simp only [Tree.flatten, List.mem_cons] at hj
        rcases hj with rfl | hj
        · exact hi
        · exact hk j hj
    · intro j hj
      simp only [Tree.flatten, List.mem_cons] at hj
      rcases hj with rfl | hj
      · exact hi
      · exact Forest.post_bounded S hS cfg ex hops d (lvl + 1) _ k hk j hj
theorem Forest.post_bounded (S : SF) (hS : okPost S = true) (cfg : Cfg) (ex : String → Extract) (hops d lvl : Nat) (pdnr : Int)
    (f : Forest) (h : ∀ j ∈ f.flatten, Bounded cfg hops j) :
    ∀ j ∈ (f.post S cfg ex d lvl pdnr).1.flatten, Bounded cfg hops j := by
  match f with
  | .nil => intro j hj; simp [Forest.post, Forest.flatten] at hj
  | .cons t f =>
    intro j hj
    simp only [Forest.post, Forest.flatten, List.mem_append] at hj h
    rcases hj with hj | hj
    · exact Tree.post_bounded S hS cfg ex hops d lvl pdnr false t (fun j hj => h j (Or.inl hj)) j hj
    · exact Forest.post_bounded S hS cfg ex hops d lvl pdnr f (fun j hj => h j (Or.inr hj)) j hj
end

theorem postprocess_bounded (S : SF) (hS : okPost S = true) (cfg : Cfg) (ex : String → Extract) (hops : Nat) (t : Tree)
    (h : ∀ j ∈ t.flatten, Bounded cfg hops j) : ∀ j ∈ (postprocess S cfg ex t).1.flatten, Bounded cfg hops j :=
  Tree.post_bounded S hS cfg ex hops _ _ _ _ t h

/-! ### closeBodies: after postprocess no node down to the working depth holds a body (C16) -/

mutual
theorem Tree.post_closes (S : SF) (cfg : Cfg) (ex : String → Extract) (d lvl : Nat) (pdnr : Int) (isSeed : Bool) (t : Tree) (n : Nat)
    (hn : lvl + n ≤ d) : ∀ i ∈ ((t.post S cfg ex d lvl pdnr isSeed).1).atLevel n, i.body = false := by
  match t, n with
  | .node i k, 0 =>
    unfold Tree.post
    split
    · split
      · show ∀ j ∈ ((match postAct S cfg ex i (nodeDnr isSeed i.st pdnr) with
            | PostAct.complete => _ | PostAct.redirect c => _ | PostAct.extract kids outs => _ : Tree × List Outlink).1).atLevel 0, _
        split <;> (intro j hj; simp only [Tree.atLevel, List.mem_singleton] at hj; subst hj; rfl)
      · intro j hj; simp only [Tree.atLevel, List.mem_singleton] at hj; subst hj; rfl
    · intro j hj; simp only [Tree.atLevel, List.mem_singleton] at hj; subst hj; rfl
  | .node i k, n + 1 =>
    unfold Tree.post
    split
    · rename_i hl
      have : lvl = d := by simpa using hl
      omega
    · intro j hj
      simp only [Tree.atLevel] at hj
      exact Forest.post_closes S cfg ex d (lvl + 1) _ k n (by omega) j hj
theorem Forest.post_closes (S : SF) (cfg : Cfg) (ex : String → Extract) (d lvl : Nat) (pdnr : Int) (f : Forest) (n : Nat)
    (hn : lvl + n ≤ d) : ∀ i ∈ ((f.post S cfg ex d lvl pdnr).1).atLevel n, i.body = false := by
  match f with
  | .nil => intro i hi; simp [Forest.post, Forest.atLevel] at hi
  | .cons t f =>
    intro i hi
    simp only [Forest.post, Forest.atLevel, List.mem_append] at hi
    rcases hi with hi | hi
    · exact Tree.post_closes S cfg ex d lvl pdnr false t n hn i hi
    · exact Forest.post_closes S cfg ex d lvl pdnr f n hn i hi
end

/-- `postprocess` ends with `closeBodies`: no node down to the working depth still holds its response body;
the nodes it creates below start without one -/
theorem postprocess_closes_bodies (S : SF) (cfg : Cfg) (ex : String → Extract) (t : Tree) (n : Nat) (hn : n ≤ t.maxDepth) :
    ∀ i ∈ ((postprocess S cfg ex t).1).atLevel n, i.body = false :=
  Tree.post_closes S cfg ex t.maxDepth 0 0 true t n (by omega)

/-! ### the local seen-store (C08) -/

/-- is the node checked as a "seed" (the seed itself or a redirect target) rather than as an asset? -/
def checkedAsSeed (t : Tree) (i : Info) : Bool := !(t.parentStatus i.id == some Status.gotChildren)

/-- one iteration of `SeencheckItem`'s loop -/
def scStep (t : Tree) (acc : Seen × List String) (i : Info) : Seen × List String :=
  match acc.1.lookup i.url with
  | none => ((i.url, checkedAsSeed t i) :: acc.1, acc.2)
  | some wasSeed =>
    if !wasSeed && checkedAsSeed t i then ((i.url, true) :: acc.1, acc.2)
    else (acc.1, i.id :: acc.2)

theorem seencheck_eq (t : Tree) (items : List Info) (seen : Seen) :
    seencheck t items seen = items.foldl (scStep t) (seen, []) := rfl

/-- store extension: every recorded URL stays recorded, and a "seed" record stays a "seed" record -/
def Ext (s s' : Seen) : Prop := ∀ u b, s.lookup u = some b → ∃ b', s'.lookup u = some b' ∧ (b = true → b' = true)

theorem Ext.refl (s : Seen) : Ext s s := fun _ b h => ⟨b, h, id⟩
theorem Ext.trans {a b c : Seen} (h1 : Ext a b) (h2 : Ext b c) : Ext a c := by
  intro u x hx
  obtain ⟨y, hy, hxy⟩ := h1 u x hx
  obtain ⟨z, hz, hyz⟩ := h2 u y hy
  exact ⟨z, hz, fun h => hyz (hxy h)⟩

theorem lookup_cons_self (u : String) (b : Bool) (s : Seen) : List.lookup u ((u, b) :: s) = some b := by
  simp [List.lookup]

theorem lookup_cons_ne {u v : String} (b : Bool) (s : Seen) (h : u ≠ v) : List.lookup u ((v, b) :: s) = List.lookup u s := by
  simp only [List.lookup]
  have : (u == v) = false := by simpa using h
  simp [this]

theorem scStep_ext (t : Tree) (acc : Seen × List String) (i : Info) : Ext acc.1 (scStep t acc i).1 := by
  intro u b hb
  unfold scStep
  split
  · rename_i hnone
    have hne : u ≠ i.url := by intro h; rw [h] at hb; rw [hnone] at hb; cases hb
    exact ⟨b, by simp only; rw [lookup_cons_ne _ _ hne]; exact hb, id⟩
  · rename_i w hw
    split
    · rename_i hc
      by_cases hu : u = i.url
      · exact ⟨true, by simp only; rw [hu]; exact lookup_cons_self _ _ _, fun _ => rfl⟩
      · exact ⟨b, by simp only; rw [lookup_cons_ne _ _ hu]; exact hb, id⟩
    · exact ⟨b, hb, id⟩

theorem scStep_skipped_mono (t : Tree) (acc : Seen × List String) (i : Info) (x : String) (h : x ∈ acc.2) : x ∈ (scStep t acc i).2 := by
  unfold scStep
  split
  · exact h
  · split
    · exact h
    · exact List.mem_cons_of_mem _ h

theorem fold_ext (t : Tree) (items : List Info) (acc : Seen × List String) : Ext acc.1 (items.foldl (scStep t) acc).1 := by
  induction items generalizing acc with
  | nil => exact Ext.refl _
  | cons x xs ih => exact (scStep_ext t acc x).trans (ih _)

theorem fold_skipped_mono (t : Tree) (items : List Info) (acc : Seen × List String) (x : String) (h : x ∈ acc.2) :
    x ∈ (items.foldl (scStep t) acc).2 := by
  induction items generalizing acc with
  | nil => exact h
  | cons y ys ih => exact ih _ (scStep_skipped_mono t acc y x h)

/-- **seen ⇒ skipped**: a node whose URL the store already holds is marked seen, unless it is checked as a seed /
redirect target and the URL had only been recorded as an asset -/
theorem fold_must_skip (t : Tree) (seen : Seen) (items : List Info) (acc : Seen × List String) (hext : Ext seen acc.1)
    (i : Info) (hi : i ∈ items) (w : Bool) (hw : seen.lookup i.url = some w) (hex : w = true ∨ checkedAsSeed t i = false) :
    i.id ∈ (items.foldl (scStep t) acc).2 := by
  induction items generalizing acc with
  | nil => cases hi
  | cons x xs ih =>
    simp only [List.foldl_cons]
    rcases List.mem_cons.mp hi with rfl | hi
    · apply fold_skipped_mono
      obtain ⟨w', hw', hww⟩ := hext _ _ hw
      unfold scStep
      rw [hw']
      simp only
      have : (!w' && checkedAsSeed t i) = false := by
        rcases hex with h | h
        · simp [hww h]
        · simp [h]
      simp [this]
    · exact ih _ (hext.trans (scStep_ext t acc x)) hi

/-- every checked URL ends up recorded -/
theorem fold_records (t : Tree) (items : List Info) (acc : Seen × List String) (i : Info) (hi : i ∈ items) :
    ∃ b, (items.foldl (scStep t) acc).1.lookup i.url = some b := by
  induction items generalizing acc with
  | nil => cases hi
  | cons x xs ih =>
    simp only [List.foldl_cons]
    rcases List.mem_cons.mp hi with rfl | hi
    · have : ∃ b, (scStep t acc i).1.lookup i.url = some b := by
        unfold scStep
        split
        · exact ⟨_, lookup_cons_self _ _ _⟩
        · rename_i w hw
          split
          · exact ⟨_, lookup_cons_self _ _ _⟩
          · exact ⟨w, hw⟩
      obtain ⟨b, hb⟩ := this
      obtain ⟨b', hb', _⟩ := fold_ext t xs (scStep t acc i) _ _ hb
      exact ⟨b', hb'⟩
    · exact ih _ hi

theorem lookup_some_mem {u : String} {b : Bool} {s : Seen} (h : s.lookup u = some b) : u ∈ s.map Prod.fst := by
  induction s with
  | nil => cases h
  | cons p ps ih =>
    obtain ⟨k, v⟩ := p
    by_cases hk : u = k
    · simp [hk]
    · rw [lookup_cons_ne _ _ hk] at h
      simp [ih h]

theorem scStep_keys (t : Tree) (acc : Seen × List String) (i : Info) (u : String) (h : u ∈ (scStep t acc i).1.map Prod.fst) :
    u ∈ acc.1.map Prod.fst ∨ u = i.url := by
  unfold scStep at h
  split at h
  · simp only [List.map_cons, List.mem_cons] at h
    rcases h with h | h
    · exact Or.inr h
    · exact Or.inl h
  · split at h
    · simp only [List.map_cons, List.mem_cons] at h
      rcases h with h | h
      · exact Or.inr h
      · exact Or.inl h
    · exact Or.inl h

/-- **skipped ⇒ the store said so**: a node is marked seen only if its URL was in the store when it was looked up:
recorded before this call, or recorded by an earlier node of this very call -/
theorem fold_skip_only_reported (t : Tree) (items : List Info) (acc : Seen × List String) (x : String)
    (h : x ∈ (items.foldl (scStep t) acc).2) :
    x ∈ acc.2 ∨ ∃ pre i suf, items = pre ++ i :: suf ∧ i.id = x ∧ (i.url ∈ acc.1.map Prod.fst ∨ i.url ∈ pre.map (·.url)) := by
  induction items generalizing acc with
  | nil => exact Or.inl h
  | cons y ys ih =>
    simp only [List.foldl_cons] at h
    rcases ih _ h with h1 | ⟨pre, i, suf, rfl, hid, hk⟩
    · -- came in with the step on y, or was there before
      unfold scStep at h1
      split at h1
      · exact Or.inl h1
      · rename_i w hw
        split at h1
        · exact Or.inl h1
        · rcases List.mem_cons.mp h1 with h1 | h1
          · exact Or.inr ⟨[], y, ys, rfl, h1.symm, Or.inl (lookup_some_mem hw)⟩
          · exact Or.inl h1
    · refine Or.inr ⟨y :: pre, i, suf, rfl, hid, ?_⟩
      rcases hk with hk | hk
      · rcases scStep_keys t acc y _ hk with hk | hk
        · exact Or.inl hk
        · exact Or.inr (by simp [hk])
      · exact Or.inr (by simp only [List.map_cons, List.mem_cons]; exact Or.inr hk)

/-- the statuses written by `setStatuses`, level by level -/
def stamp (l : List String) (s : Status) (rq : Bool) (i : Info) : Info :=
  if l.contains i.id then { i with st := s, req := i.req || rq } else i

mutual
theorem Tree.atLevel_setStatuses (l : List String) (s : Status) (rq : Bool) (t : Tree) (n : Nat) :
    (t.setStatuses l s rq).atLevel n = (t.atLevel n).map (stamp l s rq) := by
  match t, n with
  | .node i k, 0 => simp only [Tree.setStatuses, Tree.atLevel, List.map_cons, List.map_nil, stamp]
  | .node i k, n + 1 => simp only [Tree.setStatuses, Tree.atLevel]; exact Forest.atLevel_setStatuses l s rq k n
theorem Forest.atLevel_setStatuses (l : List String) (s : Status) (rq : Bool) (f : Forest) (n : Nat) :
    (f.setStatuses l s rq).atLevel n = (f.atLevel n).map (stamp l s rq) := by
  match f with
  | .nil => simp [Forest.setStatuses, Forest.atLevel]
  | .cons t f =>
    simp only [Forest.setStatuses, Forest.atLevel, List.map_append]
    rw [Tree.atLevel_setStatuses l s rq t n, Forest.atLevel_setStatuses l s rq f n]
end

/-- **a node marked seen gets no request**: the final loop of `preprocess` only takes the nodes the seen-store did
not report (whichever store it was) -/
theorem finalStep_skips_seen (t2 : Tree) (sr : Seen × List String) (d : Nat) :
    ∀ x ∈ (finalStep t2 sr d).2.2.1, x ∉ sr.2 := by
  intro x hx hmem
  unfold finalStep at hx
  simp only at hx
  split at hx
  · simp at hx
  · simp only [List.mem_map, List.mem_filter, Tree.atLevel_setStatuses] at hx
    obtain ⟨j, ⟨⟨i, _, rfl⟩, hfresh⟩, rfl⟩ := hx
    unfold stamp at hfresh hmem
    split at hfresh
    · simp at hfresh
    · rename_i hc
      split at hmem
      · contradiction
      · exact hc (by simpa using hmem)

/-- through the whole of `preprocess` (local store): a node the seencheck marks seen is not among the nodes that get a request -/
theorem preTail_seen_not_requested (S : SF) (cfg : Cfg) (seen : Seen) (t2 : Tree) (d : Nat) (hq : cfg.useHQ = false)
    (hs : cfg.useSeencheck = true) :
    ∀ x ∈ (preTail S cfg seen t2 d).2.2.1, x ∉ (seencheck t2 (t2.atLevel d) seen).2 := by
  intro x hx
  unfold preTail at hx
  split at hx
  · simp at hx
  · simp only [hq, Bool.false_eq_true, if_false, hs, Bool.or_true, Bool.not_true, Bool.and_false, if_true] at hx
    exact finalStep_skips_seen t2 _ d x hx

/-! ### crawl HQ as the seen-store -/

def hqStep (acc : Seen × List String) (v : String) : Seen × List String :=
  if (acc.1.lookup v).isSome then acc else ((v, false) :: acc.1, acc.2 ++ [v])

theorem hqAnswer_eq (hq : Seen) (sent : List String) : hqAnswer hq sent = sent.foldl hqStep (hq, []) := rfl

theorem hqStep_some (acc : Seen × List String) (x : String) (b : Bool) (h : acc.1.lookup x = some b) : hqStep acc x = acc := by
  simp [hqStep, h]
theorem hqStep_none (acc : Seen × List String) (x : String) (h : acc.1.lookup x = none) :
    hqStep acc x = ((x, false) :: acc.1, acc.2 ++ [x]) := by
  simp [hqStep, h]

theorem hq_fold_mem (sent : List String) (acc : Seen × List String) (v : String) :
    v ∈ (sent.foldl hqStep acc).2 ↔ v ∈ acc.2 ∨ (v ∈ sent ∧ acc.1.lookup v = none) := by
  induction sent generalizing acc with
  | nil => simp
  | cons x xs ih =>
    simp only [List.foldl_cons]
    rw [ih]
    cases hx : acc.1.lookup x with
    | some b =>
      rw [hqStep_some acc x b hx]
      simp only [List.mem_cons]
      constructor
      · rintro (h | ⟨h1, h2⟩)
        · exact Or.inl h
        · exact Or.inr ⟨Or.inr h1, h2⟩
      · rintro (h | ⟨h1 | h1, h2⟩)
        · exact Or.inl h
        · rw [h1, hx] at h2; cases h2
        · exact Or.inr ⟨h1, h2⟩
    | none =>
      rw [hqStep_none acc x hx]
      simp only [List.mem_append, List.mem_singleton, List.mem_cons, List.not_mem_nil, or_false]
      constructor
      · rintro ((h | h) | ⟨h1, h2⟩)
        · exact Or.inl h
        · exact Or.inr ⟨Or.inl h, by rw [h]; exact hx⟩
        · by_cases hv : v = x
          · exact Or.inr ⟨Or.inl hv, by rw [hv]; exact hx⟩
          · rw [lookup_cons_ne _ _ hv] at h2
            exact Or.inr ⟨Or.inr h1, h2⟩
      · rintro (h | ⟨h1 | h1, h2⟩)
        · exact Or.inl (Or.inl h)
        · exact Or.inl (Or.inr h1)
        · by_cases hv : v = x
          · exact Or.inl (Or.inr hv)
          · exact Or.inr ⟨h1, by rw [lookup_cons_ne _ _ hv]; exact h2⟩

/-- crawl HQ answers exactly with the values it had not recorded -/
theorem hqAnswer_mem (hq : Seen) (sent : List String) (v : String) :
    v ∈ (hqAnswer hq sent).2 ↔ v ∈ sent ∧ hq.lookup v = none := by
  rw [hqAnswer_eq, hq_fold_mem]; simp

/-- when the value sent and the value compared are the same field, a fresh node is marked seen exactly when HQ had
recorded its value -/
theorem hq_marked_iff (S : SF) (hagree : ∀ i, hqSendKey S i = hqCmpKey S i) (items : List Info) (hq : Seen) (i : Info)
    (hi : i ∈ items) (hf : i.st = .fresh) :
    (hqCmpKey S i ∉ (hqAnswer hq (hqSent S items)).2) ↔ (hq.lookup (hqSendKey S i)).isSome = true := by
  rw [hqAnswer_mem, ← hagree i]
  have hs : hqSendKey S i ∈ hqSent S items := by
    simp only [hqSent, List.mem_map, List.mem_filter]
    exact ⟨i, ⟨hi, by simp [hf]⟩, rfl⟩
  cases h : hq.lookup (hqSendKey S i) <;> simp [hs]

end Zeno.Model.Stages
