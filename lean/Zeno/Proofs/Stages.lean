import Zeno.Model.Stages
import Zeno.Proofs.Item
/-! Lemmas about the stage semantics (core Lean only). -/
set_option linter.unusedSimpArgs false
set_option linter.unusedVariables false
set_option linter.unnecessarySimpa false
namespace Zeno.Model.Stages
open Zeno Zeno.Model.Item

/-! ### where nodes of a level come from -/

def ids (l : List Info) : List String := l.map (·.id)

mutual
theorem Tree.atLevel_prune (rm : List String) (t : Tree) (n : Nat) :
    ∀ j ∈ (t.prune rm).atLevel (n + 1), ∃ i ∈ t.atLevel (n + 1), i = j ∧ rm.contains i.id = false := by
  match t with
  | .node i k =>
    intro j hj
    simp only [Tree.prune, Tree.atLevel] at hj ⊢
    exact Forest.atLevel_prune rm k n j hj
theorem Forest.atLevel_prune (rm : List String) (f : Forest) (n : Nat) :
    ∀ j ∈ (f.prune rm).atLevel n, ∃ i ∈ f.atLevel n, i = j ∧ rm.contains i.id = false := by
  match f with
  | .nil => intro j hj; simp [Forest.prune, Forest.atLevel] at hj
  | .cons t f =>
    intro j hj
    simp only [Forest.prune] at hj
    split at hj
    · obtain ⟨i, hi, h1, h2⟩ := Forest.atLevel_prune rm f n j hj
      exact ⟨i, by simp [Forest.atLevel, hi], h1, h2⟩
    · rename_i hc
      simp only [Forest.atLevel, List.mem_append] at hj ⊢
      rcases hj with hj | hj
      · cases n with
        | zero =>
          match t, hc, hj with
          | .node i0 k, hc, hj =>
            simp only [Tree.prune, Tree.atLevel, List.mem_singleton] at hj
            refine ⟨i0, Or.inl (by simp [Tree.atLevel]), hj.symm, ?_⟩
            simpa [Tree.info] using hc
        | succ m =>
          obtain ⟨i, hi, h1, h2⟩ := Tree.atLevel_prune rm t m j hj
          exact ⟨i, Or.inl hi, h1, h2⟩
      · obtain ⟨i, hi, h1, h2⟩ := Forest.atLevel_prune rm f n j hj
        exact ⟨i, Or.inr hi, h1, h2⟩
end

def normInfo (ks : List (String × NormRes)) (i : Info) : Info :=
  match ks.lookup i.id with
  | some r => { i with url := r.canon, host := r.host, path := r.path, raw := r.href }
  | none => i

mutual
theorem Tree.atLevel_setNorm (ks : List (String × NormRes)) (t : Tree) (n : Nat) :
    (t.setNorm ks).atLevel n = (t.atLevel n).map (normInfo ks) := by
  match t, n with
  | .node i k, 0 =>
    simp only [Tree.setNorm, Tree.atLevel, normInfo, List.map_cons, List.map_nil]
    cases List.lookup i.id ks <;> rfl
  | .node i k, n + 1 => simp only [Tree.setNorm, Tree.atLevel]; exact Forest.atLevel_setNorm ks k n
theorem Forest.atLevel_setNorm (ks : List (String × NormRes)) (f : Forest) (n : Nat) :
    (f.setNorm ks).atLevel n = (f.atLevel n).map (normInfo ks) := by
  match f with
  | .nil => simp [Forest.setNorm, Forest.atLevel]
  | .cons t f =>
    simp only [Forest.setNorm, Forest.atLevel, List.map_append, Tree.atLevel_setNorm ks t n, Forest.atLevel_setNorm ks f n]
end

theorem normInfo_id (ks : List (String × NormRes)) (i : Info) : (normInfo ks i).id = i.id := by
  unfold normInfo; split <;> rfl

mutual
theorem Tree.atLevel_mark_ids (F : IF) (t : Tree) (n : Nat) : ids ((t.mark F).atLevel n) = ids (t.atLevel n) := by
  match t, n with
  | .node i k, 0 => simp only [Tree.mark]; split <;> simp [Tree.atLevel, ids]
  | .node i k, n + 1 =>
    simp only [Tree.mark]
    split <;> simp only [Tree.atLevel] <;> exact Forest.atLevel_mark_ids F k n
theorem Forest.atLevel_mark_ids (F : IF) (f : Forest) (n : Nat) : ids ((f.mark F).atLevel n) = ids (f.atLevel n) := by
  match f with
  | .nil => simp [Forest.mark, Forest.atLevel]
  | .cons t f =>
    simp only [Forest.mark, Forest.atLevel, ids, List.map_append]
    have h1 := Tree.atLevel_mark_ids F t n
    have h2 := Forest.atLevel_mark_ids F f n
    simp only [ids] at h1 h2
    rw [h1, h2]
end

mutual
theorem Tree.atLevel_setStatuses_ids (l : List String) (s : Status) (rq : Bool) (t : Tree) (n : Nat) :
    ids ((t.setStatuses l s rq).atLevel n) = ids (t.atLevel n) := by
  match t, n with
  | .node i k, 0 => simp only [Tree.setStatuses, Tree.atLevel, ids, List.map_cons, List.map_nil]; split <;> rfl
  | .node i k, n + 1 => simp only [Tree.setStatuses, Tree.atLevel]; exact Forest.atLevel_setStatuses_ids l s rq k n
theorem Forest.atLevel_setStatuses_ids (l : List String) (s : Status) (rq : Bool) (f : Forest) (n : Nat) :
    ids ((f.setStatuses l s rq).atLevel n) = ids (f.atLevel n) := by
  match f with
  | .nil => simp [Forest.setStatuses, Forest.atLevel]
  | .cons t f =>
    simp only [Forest.setStatuses, Forest.atLevel, ids, List.map_append]
    have h1 := Tree.atLevel_setStatuses_ids l s rq t n
    have h2 := Forest.atLevel_setStatuses_ids l s rq f n
    simp only [ids] at h1 h2
    rw [h1, h2]
end

/-- ids at a level below the seed after `dedupe` come from the ids at that level before -/
theorem dedupe_level_ids (F : IF) (t : Tree) (n : Nat) :
    ∀ x ∈ ids ((dedupe F t).atLevel (n + 1)), x ∈ ids (t.atLevel (n + 1)) := by
  intro x hx
  unfold dedupe at hx
  rw [Tree.atLevel_mark_ids] at hx
  simp only [ids, List.mem_map] at hx ⊢
  obtain ⟨j, hj, rfl⟩ := hx
  obtain ⟨i, hi, h1, _⟩ := Tree.atLevel_prune _ t n j hj
  exact ⟨i, hi, by rw [h1]⟩

/-! ### what `scan` keeps -/

theorem scan_spec (cfg : Cfg) (norm : String → Option NormRes) (t : Tree) (items : List Info)
    (h : (scan cfg norm t items).2.2 = none) :
    ∀ i ∈ items, i.id ∈ (scan cfg norm t items).1 ∨
      ∃ r, (i.id, r) ∈ (scan cfg norm t items).2.1 ∧ verdict cfg norm t i = .keep r := by
  induction items with
  | nil => intro i hi; cases hi
  | cons x xs ih =>
    intro i hi
    unfold scan at h ⊢
    cases hv : verdict cfg norm t x with
    | panic => simp [hv] at h
    | stop st => simp [hv] at h
    | remove =>
      simp only [hv] at h ⊢
      rcases List.mem_cons.mp hi with hi | hi
      · subst hi; left; simp
      · rcases ih h i hi with h1 | ⟨r, h1, h2⟩
        · left; simp [h1]
        · right; exact ⟨r, h1, h2⟩
    | keep r =>
      simp only [hv] at h ⊢
      rcases List.mem_cons.mp hi with hi | hi
      · subst hi; right; exact ⟨r, by simp, hv⟩
      · rcases ih h i hi with h1 | ⟨r', h1, h2⟩
        · left; exact h1
        · right; exact ⟨r', by simp [h1], h2⟩

/-- a kept node passed the filters, with the normaliser's own answer for it -/
theorem keep_in_scope (cfg : Cfg) (norm : String → Option NormRes) (t : Tree) (i : Info) (r : NormRes)
    (h : verdict cfg norm t i = .keep r) : norm i.id = some r ∧ passesFilters cfg r = true := by
  unfold verdict at h
  split at h
  · cases h
  · cases hn : norm i.id with
    | none => simp only [hn] at h; split at h <;> cases h
    | some r0 =>
      simp only [hn] at h
      split at h
      · split at h <;> cases h
      · rename_i hp
        split at h
        · cases h
        · cases h; exact ⟨rfl, by simpa using hp⟩

theorem finalStep_ids (t2 : Tree) (sr : Seen × List String) (d : Nat) :
    ∀ x ∈ (finalStep t2 sr d).2.2.1, x ∈ ids (t2.atLevel d) := by
  intro x hx
  unfold finalStep at hx
  simp only at hx
  split at hx
  · simp at hx
  · simp only [List.mem_map, List.mem_filter] at hx
    obtain ⟨j, ⟨hj, _⟩, rfl⟩ := hx
    have : j.id ∈ ids ((t2.setStatuses sr.2 .seen false).atLevel d) := by
      simp only [ids, List.mem_map]; exact ⟨j, hj, rfl⟩
    rw [Tree.atLevel_setStatuses_ids] at this
    exact this

theorem preTail_ids (S : SF) (cfg : Cfg) (seen : Seen) (t2 : Tree) (d : Nat) :
    ∀ x ∈ (preTail S cfg seen t2 d).2.2.1, x ∈ ids (t2.atLevel d) := by
  intro x hx
  unfold preTail at hx
  split at hx
  · simp at hx
  · simp only at hx
    split at hx
    · simp at hx
    · exact finalStep_ids t2 _ d x hx

/-- **Only in-scope URLs get a request.** Every node to which `preprocess` attaches a request was
normalised by the URL normaliser and passed the operator's include / exclude filters with exactly
that normalised URL — for every tree, every configuration, every normaliser and seen-store. -/
theorem requests_in_scope (S : SF) (I : IF) (cfg : Cfg) (norm : String → Option NormRes) (seen : Seen) (t : Tree)
    (hd : 0 < t.maxDepth) :
    ∀ x ∈ (preCore S I cfg norm seen t).2.2.1, ∃ r, norm x = some r ∧ passesFilters cfg r = true := by
  intro x hx
  unfold preCore at hx
  simp only at hx
  cases hstop : (scan cfg norm t (t.atLevel t.maxDepth)).2.2 with
  | some v =>
    rw [hstop] at hx
    cases v <;> simp at hx
  | none =>
    rw [hstop] at hx
    simp only at hx
    have h3 := preTail_ids S cfg seen _ _ x hx
    obtain ⟨n, hn⟩ : ∃ n, t.maxDepth = n + 1 := ⟨t.maxDepth - 1, by omega⟩
    rw [hn] at h3
    have h2 := dedupe_level_ids I _ n _ h3
    simp only [ids, List.mem_map] at h2
    obtain ⟨j1, hj1, hid1⟩ := h2
    obtain ⟨j0, hj0, he, hnr⟩ := Tree.atLevel_prune _ _ n j1 hj1
    rw [Tree.atLevel_setNorm] at hj0
    simp only [List.mem_map] at hj0
    obtain ⟨i, hi, hni⟩ := hj0
    have hid : i.id = x := by rw [← hid1, ← he, ← hni, normInfo_id]
    rw [← hn] at hi
    rcases scan_spec cfg norm t _ hstop i hi with hrm | ⟨r, _, hv⟩
    · exfalso
      have hc : (scan cfg norm t (t.atLevel t.maxDepth)).1.contains j0.id = true := by
        rw [← hni, normInfo_id]; simpa using hrm
      rw [hn] at hc
      rw [hc] at hnr; cases hnr
    · obtain ⟨h1, h2⟩ := keep_in_scope cfg norm t i r hv
      exact ⟨r, by rw [← hid]; exact h1, h2⟩

/-- the seed itself (working depth 0): the single node is the seed -/
theorem requests_in_scope_seed (S : SF) (I : IF) (cfg : Cfg) (norm : String → Option NormRes) (seen : Seen) (i : Info) :
    ∀ x ∈ (preCore S I cfg norm seen (.node i .nil)).2.2.1, ∃ r, norm x = some r ∧ passesFilters cfg r = true := by
  intro x hx
  unfold preCore at hx
  simp only [Tree.maxDepth, Tree.atLevel] at hx
  cases hv : verdict cfg norm (.node i .nil) i with
  | panic => simp [scan, hv] at hx
  | stop st => simp [scan, hv] at hx
  | remove =>
    simp only [scan, hv] at hx
    have h3 := preTail_ids S cfg seen _ _ x hx
    -- the seed is never pruned, but it is not in the kept list either: the id must be the seed's
    simp only [dedupe, Tree.prune, Tree.setNorm, Forest.setNorm, Forest.prune, Tree.kids, Forest.flatten, dedupeRemoved,
      List.foldl_nil] at h3
    rw [Tree.atLevel_mark_ids] at h3
    simp only [Tree.atLevel, ids, List.map_cons, List.map_nil, List.mem_singleton, List.lookup] at h3
    -- a seed whose verdict is `remove` does not exist: `remove` needs a parent
    exfalso
    unfold verdict at hv
    simp only [Tree.parentStatus, Forest.parentStatusIn] at hv
    split at hv
    · cases hv
    · cases hn : norm i.id with
      | none => simp [hn] at hv
      | some r0 => simp [hn] at hv; split at hv <;> simp at hv
  | keep r =>
    simp only [scan, hv] at hx
    have h3 := preTail_ids S cfg seen _ _ x hx
    simp only [dedupe, Tree.prune, Tree.setNorm, Forest.setNorm, Forest.prune, Tree.kids, Forest.flatten, dedupeRemoved,
      List.foldl_nil] at h3
    rw [Tree.atLevel_mark_ids] at h3
    have hx' : x = i.id := by
      simp only [Tree.atLevel, ids, List.map_cons, List.map_nil, List.mem_singleton] at h3
      rw [h3]; split <;> rfl
    obtain ⟨h1, h2⟩ := keep_in_scope cfg norm _ i r hv
    exact ⟨r, by rw [hx']; exact h1, h2⟩

end Zeno.Model.Stages
