import Zeno.Model.Resolve
/-! What "resolved as the URL standard prescribes" means structurally (core Lean only). -/
namespace Zeno.Model.Resolve

/-- no `.` or `..` segment -/
def NoDots (l : List String) : Prop := ∀ s ∈ l, s ≠ "." ∧ s ≠ ".."

theorem NoDots.append {a b : List String} (ha : NoDots a) (hb : NoDots b) : NoDots (a ++ b) := by
  intro s hs
  rcases List.mem_append.1 hs with h | h
  · exact ha s h
  · exact hb s h

theorem noDots_empty : NoDots [""] := by
  intro s hs; simp at hs; subst hs; exact ⟨by decide, by decide⟩

theorem NoDots.pop {out : List String} (h : NoDots out) : NoDots (pop out) := by
  unfold Resolve.pop
  split
  · exact h
  · intro s hs; exact h s (List.dropLast_subset _ hs)

theorem pop_head (out : List String) (h : out.head? = some "") : (pop out).head? = some "" := by
  unfold pop
  split
  · exact h
  · rename_i hl
    match out, h with
    | a :: b :: rest, h =>
      simp only [List.head?_cons, Option.some.injEq] at h
      subst h
      simp [List.dropLast]

theorem head_append_of_head {a : List String} (b : List String) (h : a.head? = some "") : (a ++ b).head? = some "" := by
  match a, h with
  | x :: rest, h => simpa using h

theorem rdGo_noDots (out inp : List String) (h : NoDots out) : NoDots (rdGo out inp) := by
  induction inp generalizing out with
  | nil => simpa [rdGo] using h
  | cons s rest ih =>
    cases rest with
    | nil =>
      simp only [rdGo]
      split
      · exact h.append noDots_empty
      · split
        · exact h.pop.append noDots_empty
        · rename_i h1 h2
          refine h.append ?_
          intro x hx
          simp only [List.mem_singleton] at hx
          subst hx
          exact ⟨by simpa using h1, by simpa using h2⟩
    | cons t rest' =>
      simp only [rdGo]
      split
      · exact ih out h
      · split
        · exact ih _ h.pop
        · rename_i h1 h2
          refine ih _ (h.append ?_)
          intro x hx
          simp only [List.mem_singleton] at hx
          subst hx
          exact ⟨by simpa using h1, by simpa using h2⟩

theorem rdGo_head (out inp : List String) (h : out.head? = some "") : (rdGo out inp).head? = some "" := by
  induction inp generalizing out with
  | nil => simpa [rdGo] using h
  | cons s rest ih =>
    cases rest with
    | nil =>
      simp only [rdGo]
      split
      · exact head_append_of_head _ h
      · split
        · exact head_append_of_head _ (pop_head out h)
        · exact head_append_of_head _ h
    | cons t rest' =>
      simp only [rdGo]
      split
      · exact ih out h
      · split
        · exact ih _ (pop_head out h)
        · exact ih _ (head_append_of_head _ h)

/-- without dot segments there is nothing to remove -/
theorem rdGo_of_noDots (out inp : List String) (h : NoDots inp) : rdGo out inp = out ++ inp := by
  induction inp generalizing out with
  | nil => simp [rdGo]
  | cons s rest ih =>
    have hs := h s (by simp)
    have h1 : (s == ".") = false := by simpa using hs.1
    have h2 : (s == "..") = false := by simpa using hs.2
    cases rest with
    | nil => simp [rdGo, h1, h2]
    | cons t rest' =>
      simp only [rdGo, h1, h2, Bool.false_eq_true, if_false]
      rw [ih _ (fun x hx => h x (by simp [hx]))]
      simp

/-- **the result of `remove_dot_segments` has no dot segments** (absolute paths) -/
theorem removeDots_noDots (p : List String) (habs : p.head? = some "") : NoDots (removeDots p) := by
  match p, habs with
  | s :: rest, habs =>
    simp only [List.head?_cons, Option.some.injEq] at habs
    subst habs
    simp only [removeDots]
    split
    · exact noDots_empty
    · exact rdGo_noDots _ _ noDots_empty

theorem removeDots_head (p : List String) (habs : p.head? = some "") : (removeDots p).head? = some "" := by
  match p, habs with
  | s :: rest, habs =>
    simp only [List.head?_cons, Option.some.injEq] at habs
    subst habs
    simp only [removeDots]
    split
    · rfl
    · exact rdGo_head _ _ rfl

/-- a path without dot segments is left as it is -/
theorem removeDots_of_noDots (p : List String) (h : NoDots p) : removeDots p = p := by
  match p with
  | [] => rfl
  | s :: rest =>
    by_cases hs : s = ""
    · subst hs
      simp only [removeDots]
      split
      · rename_i he
        have : rest = [] := by simpa using he
        subst this; rfl
      · rw [rdGo_of_noDots _ _ (fun x hx => h x (by simp [hx]))]; rfl
    · unfold removeDots
      split
      · rename_i heq; simp only [List.cons.injEq] at heq; exact absurd heq.1 hs
      · rfl

/-- **`remove_dot_segments` is idempotent** -/
theorem removeDots_idem (p : List String) (habs : p.head? = some "") : removeDots (removeDots p) = removeDots p :=
  removeDots_of_noDots _ (removeDots_noDots p habs)

theorem rootIfEmpty_noDots {p : List String} (h : NoDots p) : NoDots (rootIfEmpty p) := by
  unfold rootIfEmpty
  split
  · intro s hs
    simp at hs; subst hs; exact ⟨by decide, by decide⟩
  · exact h

theorem rootIfEmpty_head {p : List String} (h : p.head? = some "") : (rootIfEmpty p).head? = some "" := by
  unfold rootIfEmpty; split; rfl; exact h

theorem merge_head (b : Ref) (rp : List String) (ha : b.auth.isSome = true) (hp : b.path.head? = some "") : (merge b rp).head? = some "" := by
  unfold merge
  split
  · rfl
  · rename_i hc
    simp only [ha, Bool.true_and] at hc
    match hb : b.path, hp with
    | [x], hp =>
      simp only [List.head?_cons, Option.some.injEq] at hp
      subst hp
      rw [hb] at hc; simp at hc
    | x :: y :: rest, hp =>
      simp only [List.head?_cons, Option.some.injEq] at hp
      subst hp
      simp [List.dropLast]

/-- the references the crawler meets: what follows an authority, and every path of a reference that names its own scheme,
starts at the root (or is empty) -/
def WfRef (r : Ref) : Prop := (r.auth.isSome = true ∨ r.scheme.isSome = true) → r.path.head? = some ""

/-- **No dot segment survives resolution**, and the resolved path starts at the root -/
theorem resolve_path (b r : Ref) (hb : b.auth.isSome = true) (hbp : b.path.head? = some "") (hr : WfRef r) :
    NoDots (resolve b r).path ∧ (resolve b r).path.head? = some "" := by
  unfold resolve
  split
  · rename_i h
    have := hr (Or.inr h)
    exact ⟨rootIfEmpty_noDots (removeDots_noDots _ this), rootIfEmpty_head (removeDots_head _ this)⟩
  · split
    · rename_i _ h
      have := hr (Or.inl h)
      exact ⟨rootIfEmpty_noDots (removeDots_noDots _ this), rootIfEmpty_head (removeDots_head _ this)⟩
    · split
      · exact ⟨rootIfEmpty_noDots (removeDots_noDots _ hbp), rootIfEmpty_head (removeDots_head _ hbp)⟩
      · split
        · rename_i h
          have h : r.path.head? = some "" := by simpa using h
          exact ⟨rootIfEmpty_noDots (removeDots_noDots _ h), rootIfEmpty_head (removeDots_head _ h)⟩
        · have := merge_head b r.path hb hbp
          exact ⟨rootIfEmpty_noDots (removeDots_noDots _ this), rootIfEmpty_head (removeDots_head _ this)⟩

/-- a reference without scheme keeps the base's scheme; without authority, the base's host too -/
theorem resolve_inherits (b r : Ref) (hs : r.scheme = none) :
    (resolve b r).scheme = b.scheme ∧ (r.auth = none → (resolve b r).auth = b.auth) ∧ (∀ a, r.auth = some a → (resolve b r).auth = some a) := by
  unfold resolve
  simp only [hs, Option.isSome_none, Bool.false_eq_true, if_false]
  refine ⟨?_, ?_, ?_⟩
  · split
    · rfl
    · split
      · rfl
      · split <;> rfl
  · intro ha
    simp only [ha, Option.isSome_none, Bool.false_eq_true, if_false]
    split
    · rfl
    · split <;> rfl
  · intro a ha
    simp [ha]

/-- a query-only reference keeps the page's path and replaces its query -/
theorem resolve_query_only (b r : Ref) (hs : r.scheme = none) (ha : r.auth = none) (hp : r.path = [""]) (q : String) (hq : r.query = some q) :
    (resolve b r).path = rootIfEmpty (removeDots b.path) ∧ (resolve b r).query = some q := by
  unfold resolve
  simp [hs, ha, hp, hq]

/-- the empty reference is the page itself (fragment stripped) -/
theorem resolve_empty (b r : Ref) (hs : r.scheme = none) (ha : r.auth = none) (hp : r.path = [""]) (hq : r.query = none) :
    (resolve b r).path = rootIfEmpty (removeDots b.path) ∧ (resolve b r).query = b.query := by
  unfold resolve
  simp [hs, ha, hp, hq]

/-- a path-absolute reference keeps nothing of the page's path or query -/
theorem resolve_path_absolute (b r : Ref) (hs : r.scheme = none) (ha : r.auth = none) (hp : r.path.head? = some "") (hne : r.path ≠ [""]) :
    (resolve b r).path = rootIfEmpty (removeDots r.path) ∧ (resolve b r).query = r.query := by
  unfold resolve
  simp [hs, ha, hp, hne]

/-- **resolving the result again changes nothing** (the canonical form is a fixed point) -/
theorem resolve_idem (b r : Ref) (hb : b.auth.isSome = true) (hbs : b.scheme.isSome = true) (hbp : b.path.head? = some "") (hr : WfRef r) :
    resolve b (resolve b r) = resolve b r := by
  obtain ⟨hnd, hhd⟩ := resolve_path b r hb hbp hr
  have hsch : (resolve b r).scheme.isSome = true := by
    by_cases hs : r.scheme.isSome = true
    · unfold resolve; simp [hs]
    · have : r.scheme = none := by simpa using hs
      rw [(resolve_inherits b r this).1]; exact hbs
  have hfix : rootIfEmpty (removeDots (resolve b r).path) = (resolve b r).path := by
    rw [removeDots_of_noDots _ hnd]
    unfold rootIfEmpty
    split
    · rename_i he
      -- the resolved path is never the empty path
      exfalso
      have : (resolve b r).path ≠ [""] := by
        unfold resolve
        have hroot : ∀ p : List String, rootIfEmpty p ≠ [""] := by
          intro p; unfold rootIfEmpty; split <;> simp_all
        split
        · exact hroot _
        · split
          · exact hroot _
          · split
            · exact hroot _
            · split <;> exact hroot _
      exact this (by simpa using he)
    · rfl
  generalize hT : resolve b r = T at *
  unfold resolve
  simp only [hsch, if_true, hfix]

end Zeno.Model.Resolve
