import Zeno.Model.Flow
/-! No wedge in the flow of items through the bounded channels and worker pools (core Lean only). -/
namespace Zeno.Model.Flow

structure Inv (c : Cfg) (s : S) : Prop where
  acct : s.seeds = s.used
  bound : s.used ≤ c.tokens
  run1 : s.r ≤ 1

theorem inv_init (c : Cfg) : Inv c {} := ⟨rfl, Nat.zero_le _, Nat.zero_le _⟩

theorem inv_step (c : Cfg) (s s' : S) (a : Act) (h : Inv c s) (hs : step c s a = some s') : Inv c s' := by
  obtain ⟨h1, h2, h3⟩ := h
  simp only [S.seeds] at h1
  cases a <;> simp only [step] at hs <;> split at hs <;> first
    | (rename_i hc
       simp only [Option.some.injEq] at hs
       subst hs
       refine ⟨?_, ?_, ?_⟩ <;> simp only [S.seeds] <;> omega)
    | cases hs

theorem inv_run (c : Cfg) (acts : List Act) (s : S) (h : Inv c s) : Inv c (run c s acts) := by
  induction acts generalizing s with
  | nil => exact h
  | cons a rest ih =>
    simp only [run, List.foldl_cons]
    cases hs : step c s a with
    | none => simp only [Option.getD_none]; exact ih s h
    | some s' => simp only [Option.getD_some]; exact ih s' (inv_step c s s' a h hs)

/-- **The finisher's feedback never blocks**: whenever a finisher worker holds a seed, the reactor's input has room for it. -/
theorem feedback_enabled (c : Cfg) (s : S) (h : Inv c s) (hf : 0 < s.fs) : (step c s .finFeedback).isSome = true := by
  obtain ⟨h1, h2, _⟩ := h
  simp only [S.seeds] at h1
  have : s.q < c.tokens := by omega
  simp [step, hf, this]

/-- **No wedge.** While anything is left in the pipeline, some step other than a new insert can be taken: by a stage worker, the
`run` goroutine, a finisher worker, or the source consuming what the finisher hands it. -/
theorem progress (c : Cfg) (hcap : 1 ≤ c.cap) (hw : 1 ≤ c.workers) (s : S) (h : Inv c s) (hb : s.busy = true) :
    ∃ a, a ≠ Act.insert ∧ (step c s a).isSome = true := by
  obtain ⟨h1, h2, h3⟩ := h
  have hb := of_decide_eq_true (by simpa only [S.busy] using hb)
  simp only [S.seeds] at h1 hb
  by_cases e1 : 0 < s.cF
  · exact ⟨.srcAck, by decide, by simp [step, e1]⟩
  by_cases e2 : 0 < s.cP
  · exact ⟨.srcNew, by decide, by simp [step, e2]⟩
  by_cases e3 : 0 < s.fo
  · exact ⟨.finProduce, by decide, by simp only [step]; rw [if_pos ⟨e3, by omega⟩]; rfl⟩
  by_cases e4 : 0 < s.fs
  · exact ⟨.finFinish, by decide, by simp only [step]; rw [if_pos ⟨e4, by omega, by omega⟩]; rfl⟩
  by_cases e5 : 0 < s.c3o
  · exact ⟨.finTakeOutlink, by decide, by simp only [step]; rw [if_pos ⟨e5, by omega⟩]; rfl⟩
  by_cases e6 : 0 < s.c3s
  · exact ⟨.finTakeSeed, by decide, by simp only [step]; rw [if_pos ⟨e6, by omega⟩]; rfl⟩
  by_cases e7 : 0 < s.po
  · exact ⟨.postSend, by decide, by simp only [step]; rw [if_pos ⟨e7, by omega⟩]; rfl⟩
  by_cases e8 : 0 < s.c2
  · exact ⟨.postTake, by decide, by simp only [step]; rw [if_pos ⟨e8, by omega⟩]; rfl⟩
  by_cases e9 : 0 < s.a
  · exact ⟨.archSend, by decide, by simp only [step]; rw [if_pos ⟨e9, by omega⟩]; rfl⟩
  by_cases e10 : 0 < s.c1
  · exact ⟨.archTake, by decide, by simp only [step]; rw [if_pos ⟨e10, by omega⟩]; rfl⟩
  by_cases e11 : 0 < s.p
  · exact ⟨.preSend, by decide, by simp only [step]; rw [if_pos ⟨e11, by omega⟩]; rfl⟩
  by_cases e12 : 0 < s.c0
  · exact ⟨.preTake, by decide, by simp only [step]; rw [if_pos ⟨e12, by omega⟩]; rfl⟩
  by_cases e13 : 0 < s.r
  · exact ⟨.runSend, by decide, by simp only [step]; rw [if_pos ⟨by omega, by omega⟩]; rfl⟩
  · exact ⟨.runTake, by decide, by simp only [step]; rw [if_pos ⟨by omega, by omega⟩]; rfl⟩

/-- every step moves an item forward or takes one out: the work left, weighted by the distance to the exit, decreases with every
step except an insert and a feedback (the latter is bounded per seed by `c06_seed_finishes_within`) -/
def S.weight (s : S) : Nat :=
  14 * s.q + 13 * s.r + 12 * s.c0 + 11 * s.p + 10 * s.c1 + 9 * s.a + 8 * s.c2 + 7 * s.po + 4 * s.c3s + 4 * s.c3o + 3 * s.fs + 3 * s.fo +
    s.cF + s.cP

theorem weight_decreases (c : Cfg) (s s' : S) (a : Act) (hs : step c s a = some s')
    (ha : a ≠ .insert ∧ a ≠ .finFeedback ∧ a ≠ .postOutlink) : s'.weight < s.weight := by
  obtain ⟨ha1, ha2, ha3⟩ := ha
  cases a <;> simp only [step] at hs <;> first
    | exact absurd rfl ha1
    | exact absurd rfl ha2
    | exact absurd rfl ha3
    | (split at hs
       · simp only [Option.some.injEq] at hs
         subst hs
         simp only [S.weight]
         omega
       · cases hs)

end Zeno.Model.Flow
