import Zeno.Model.ReactorFine
/-! Token accounting of the reactor under arbitrary interleavings of its callers (core Lean only). -/
set_option linter.unusedSimpArgs false
set_option linter.unusedVariables false
namespace Zeno.Model.ReactorFine
open Zeno

/-- the operation sequences the proofs are about (what the source has) -/
def okSeq (F : Facts) : Bool :=
  F.insertSeq == ["acquire", "loadOrStore", "enqueue"] && F.finishSeq == ["loadAndDelete", "release"]

theorem countP_set {α} (p : α → Bool) (l : List α) (i : Nat) (a b : α) (h : l[i]? = some a) :
    (l.set i b).countP p + (if p a then 1 else 0) = l.countP p + (if p b then 1 else 0) := by
  induction l generalizing i with
  | nil => simp at h
  | cons x xs ih =>
    cases i with
    | zero =>
      simp only [List.getElem?_cons_zero, Option.some.injEq] at h
      subst h
      simp only [List.set_cons_zero, List.countP_cons]
      omega
    | succ j =>
      simp only [List.getElem?_cons_succ] at h
      have := ih j h
      simp only [List.set_cons_succ, List.countP_cons]
      omega

theorem countP_eraseIdx {α} (p : α → Bool) (l : List α) (i : Nat) (a : α) (h : l[i]? = some a) :
    (l.eraseIdx i).countP p + (if p a then 1 else 0) = l.countP p := by
  induction l generalizing i with
  | nil => simp at h
  | cons x xs ih =>
    cases i with
    | zero =>
      simp only [List.getElem?_cons_zero, Option.some.injEq] at h
      subst h
      simp only [List.eraseIdx_cons_zero, List.countP_cons]
    | succ j =>
      simp only [List.getElem?_cons_succ] at h
      have := ih j h
      simp only [List.eraseIdx_cons_succ, List.countP_cons]
      omega

/-- with the source's sequences: an insert holds a token without an entry exactly between its first and second operation,
a finish holds an entry's token without the entry exactly between its two operations -/
def hx : Call → Bool
  | .ins _ 1 => true
  | .fin _ 1 true => true
  | _ => false

theorem holdsExtra_eq (F : Facts) (hF : okSeq F = true) (c : Call) : holdsExtra F c = hx c := by
  simp only [okSeq, Bool.and_eq_true, beq_iff_eq] at hF
  cases c with
  | ins x pc =>
    simp only [holdsExtra, hF.1]
    match pc with
    | 0 => rfl
    | 1 => rfl
    | 2 => rfl
    | n + 3 => simp [hx, List.take]
  | fin x pc l =>
    simp only [holdsExtra, hF.2]
    match pc with
    | 0 => simp [hx]
    | 1 => cases l <;> rfl
    | n + 2 => cases l <;> simp [hx, List.take]
  | fb x pc => rfl

structure Inv (F : Facts) (s : S) : Prop where
  acct : s.tokens = s.table.length + extra F s
  bound : s.tokens ≤ s.cap
  nodup : s.table.Nodup

theorem inv_init (F : Facts) (cap : Nat) : Inv F { cap := cap } := ⟨by simp [extra], Nat.zero_le _, List.nodup_nil⟩

theorem extra_append (F : Facts) (s : S) (c : Call) (h : holdsExtra F c = false) :
    extra F { s with calls := s.calls ++ [c] } = extra F s := by
  simp [extra, List.countP_append, List.countP_cons, h]

theorem length_erase_of_mem (l : List Id) (x : Id) (h : x ∈ l) : (l.erase x).length + 1 = l.length := by
  have := List.length_erase_of_mem h
  have hp : 0 < l.length := List.length_pos_of_mem h
  omega

def hxo : Option Call → Nat
  | some c => if hx c then 1 else 0
  | none => 0

/-- what one operation of one call does to the books: the call list is untouched, and
`tokens − entries − (this call's extra)` is the same before and after -/
theorem opResult_spec (F : Facts) (hF : okSeq F = true) (s s' : S) (c : Call) (oc : Option Call)
    (hb : s.tokens ≤ s.cap) (hn : s.table.Nodup) (hpos : hx c = true → 0 < s.tokens)
    (h : opResult F s c = some (s', oc)) (hd : s'.dead = false) :
    s'.calls = s.calls ∧ s'.cap = s.cap ∧ s'.tokens ≤ s'.cap ∧ s'.table.Nodup ∧
      s'.tokens + s.table.length + (if hx c then 1 else 0) = s.tokens + s'.table.length + hxo oc := by
  simp only [okSeq, Bool.and_eq_true, beq_iff_eq] at hF
  cases c with
  | ins x pc =>
    match pc with
    | 0 =>
      simp only [opResult, nextOp, hF.1, List.getElem?_cons_zero, doOp, beq_self_eq_true, if_true] at h
      split at h
      · simp only [Option.some.injEq, Prod.mk.injEq] at h
        obtain ⟨rfl, rfl⟩ := h
        refine ⟨rfl, rfl, by simp only; omega, hn, ?_⟩
        simp [hx, hxo]; omega
      · cases h
    | 1 =>
      have e1 : ("loadOrStore" == "acquire") = false := by decide
      simp only [opResult, nextOp, hF.1, List.getElem?_cons_succ, List.getElem?_cons_zero, doOp, e1, Bool.false_eq_true, if_false,
        beq_self_eq_true, if_true] at h
      split at h
      · simp only [Option.some.injEq, Prod.mk.injEq] at h
        obtain ⟨rfl, rfl⟩ := h
        simp at hd
      · rename_i hnm
        simp only [Option.some.injEq, Prod.mk.injEq] at h
        obtain ⟨rfl, rfl⟩ := h
        refine ⟨rfl, rfl, hb, List.nodup_cons.2 ⟨hnm, hn⟩, ?_⟩
        simp [hx, hxo]; omega
    | 2 =>
      have e1 : ("enqueue" == "acquire") = false := by decide
      have e2 : ("enqueue" == "loadOrStore") = false := by decide
      simp only [opResult, nextOp, hF.1, List.getElem?_cons_succ, List.getElem?_cons_zero, doOp, e1, e2, Bool.false_eq_true, if_false,
        beq_self_eq_true, if_true] at h
      split at h
      · simp only [Option.some.injEq, Prod.mk.injEq] at h
        obtain ⟨rfl, rfl⟩ := h
        exact ⟨rfl, rfl, hb, hn, by simp [hx, hxo]⟩
      · cases h
    | n + 3 =>
      simp only [opResult, nextOp, hF.1, List.getElem?_cons_succ, List.getElem?_nil, Option.some.injEq, Prod.mk.injEq] at h
      obtain ⟨rfl, rfl⟩ := h
      exact ⟨rfl, rfl, hb, hn, by simp [hx, hxo]⟩
  | fin x pc l =>
    match pc with
    | 0 =>
      have h0 : hx (.fin x 0 l) = false := by cases l <;> rfl
      simp only [opResult, nextOp, hF.2, List.getElem?_cons_zero, doOp, beq_self_eq_true, if_true] at h
      split at h
      · rename_i hm
        simp only [Option.some.injEq, Prod.mk.injEq] at h
        obtain ⟨rfl, rfl⟩ := h
        have hl := length_erase_of_mem s.table x hm
        refine ⟨rfl, rfl, hb, hn.erase x, ?_⟩
        simp only [h0, hx, hxo, Bool.false_eq_true, if_false, if_true]; omega
      · simp only [Option.some.injEq, Prod.mk.injEq] at h
        obtain ⟨rfl, rfl⟩ := h
        exact ⟨rfl, rfl, hb, hn, by simp [h0, hxo]⟩
    | 1 =>
      have e1 : ("release" == "loadAndDelete") = false := by decide
      have e2 : ("release" == "load") = false := by decide
      have e3 : ("release" == "delete") = false := by decide
      simp only [opResult, nextOp, hF.2, List.getElem?_cons_succ, List.getElem?_cons_zero, doOp, e1, e2, e3, Bool.false_eq_true, if_false,
        beq_self_eq_true, if_true] at h
      cases l with
      | true =>
        simp only [if_true] at h
        split at h
        · simp only [Option.some.injEq, Prod.mk.injEq] at h
          obtain ⟨rfl, rfl⟩ := h
          refine ⟨rfl, rfl, by simp only; omega, hn, ?_⟩
          simp [hx, hxo]; omega
        · cases h
      | false =>
        simp only [Bool.false_eq_true, if_false, Option.some.injEq, Prod.mk.injEq] at h
        obtain ⟨rfl, rfl⟩ := h
        exact ⟨rfl, rfl, hb, hn, by simp [hx, hxo]⟩
    | n + 2 =>
      have h0 : hx (.fin x (n + 2) l) = false := by cases l <;> rfl
      simp only [opResult, nextOp, hF.2, List.getElem?_cons_succ, List.getElem?_nil, Option.some.injEq, Prod.mk.injEq] at h
      obtain ⟨rfl, rfl⟩ := h
      exact ⟨rfl, rfl, hb, hn, by simp [h0, hxo]⟩
  | fb x pc =>
    match pc with
    | 0 =>
      simp only [opResult, nextOp, List.getElem?_cons_zero, doOp, beq_self_eq_true, if_true] at h
      split at h
      · simp only [Option.some.injEq, Prod.mk.injEq] at h
        obtain ⟨rfl, rfl⟩ := h
        exact ⟨rfl, rfl, hb, hn, by simp [hx, hxo]⟩
      · simp only [Option.some.injEq, Prod.mk.injEq] at h
        obtain ⟨rfl, rfl⟩ := h
        exact ⟨rfl, rfl, hb, hn, by simp [hx, hxo]⟩
    | 1 =>
      have e1 : ("enqueue" == "loadCas") = false := by decide
      simp only [opResult, nextOp, List.getElem?_cons_succ, List.getElem?_cons_zero, doOp, e1, Bool.false_eq_true, if_false,
        beq_self_eq_true, if_true] at h
      split at h
      · simp only [Option.some.injEq, Prod.mk.injEq] at h
        obtain ⟨rfl, rfl⟩ := h
        exact ⟨rfl, rfl, hb, hn, by simp [hx, hxo]⟩
      · cases h
    | n + 2 =>
      simp only [opResult, nextOp, List.getElem?_cons_succ, List.getElem?_nil, Option.some.injEq, Prod.mk.injEq] at h
      obtain ⟨rfl, rfl⟩ := h
      exact ⟨rfl, rfl, hb, hn, by simp [hx, hxo]⟩

/-- **one step of any caller keeps the accounting** -/
theorem inv_step (F : Facts) (hF : okSeq F = true) (s s' : S) (a : Act) (h : Inv F s) (hs : step F s a = some s') (hd : s'.dead = false) :
    Inv F s' := by
  cases a with
  | call c =>
    simp only [step] at hs
    split at hs
    · cases hs
    · split at hs
      · simp only [Option.some.injEq] at hs; subst hs
        exact ⟨by rw [extra_append F s _ (by rw [holdsExtra_eq F hF]; rfl)]; exact h.acct, h.bound, h.nodup⟩
      · simp only [Option.some.injEq] at hs; subst hs
        exact ⟨by rw [extra_append F s _ (by rw [holdsExtra_eq F hF]; rfl)]; exact h.acct, h.bound, h.nodup⟩
      · simp only [Option.some.injEq] at hs; subst hs
        exact ⟨by rw [extra_append F s _ (by rw [holdsExtra_eq F hF]; rfl)]; exact h.acct, h.bound, h.nodup⟩
      · cases hs
  | deliver =>
    simp only [step] at hs
    split at hs
    · cases hs
    · split at hs
      · cases hs
      · simp only [Option.some.injEq] at hs; subst hs
        exact ⟨h.acct, h.bound, h.nodup⟩
  | step i =>
    simp only [step] at hs
    split at hs
    · cases hs
    · split at hs
      · cases hs
      · rename_i c hc
        have hacct := h.acct
        simp only [extra] at hacct
        -- the call being stepped is counted in `extra` when it holds one: then a token is in use
        have hpos : hx c = true → 0 < s.tokens := by
          intro hxc
          have hmem : c ∈ s.calls := List.mem_of_getElem? hc
          have : 0 < s.calls.countP (holdsExtra F) := List.countP_pos_iff.2 ⟨c, hmem, by rw [holdsExtra_eq F hF]; exact hxc⟩
          omega
        cases hr : opResult F s c with
        | none => simp only [hr] at hs; cases hs
        | some r =>
          obtain ⟨s1, oc⟩ := r
          cases oc with
          | some c' =>
            simp only [hr, Option.some.injEq] at hs; subst hs
            obtain ⟨hcalls, hcap, hb', hn', hbook⟩ := opResult_spec F hF s s1 c (some c') h.bound h.nodup hpos hr (by simpa using hd)
            have := countP_set (holdsExtra F) s.calls i c c' hc
            rw [holdsExtra_eq F hF c, holdsExtra_eq F hF c'] at this
            simp only [hxo] at hbook
            refine ⟨?_, hb', hn'⟩
            simp only [extra, hcalls]
            omega
          | none =>
            simp only [hr, Option.some.injEq] at hs; subst hs
            obtain ⟨hcalls, hcap, hb', hn', hbook⟩ := opResult_spec F hF s s1 c none h.bound h.nodup hpos hr (by simpa using hd)
            have := countP_eraseIdx (holdsExtra F) s.calls i c hc
            rw [holdsExtra_eq F hF c] at this
            simp only [hxo] at hbook
            refine ⟨?_, hb', hn'⟩
            simp only [extra, hcalls]
            omega

theorem step_dead (F : Facts) (s : S) (a : Act) (h : s.dead = true) : step F s a = none := by
  cases a <;> simp [step, h]

/-- **every schedule**: as long as no caller panicked, tokens in use = tracked seeds + calls between their two operations -/
theorem inv_run (F : Facts) (hF : okSeq F = true) (acts : List Act) (s : S) (h : Inv F s) (hd : (run F s acts).dead = false) :
    Inv F (run F s acts) := by
  induction acts generalizing s with
  | nil => exact h
  | cons a rest ih =>
    simp only [run, List.foldl_cons] at hd ⊢
    cases hs : step F s a with
    | none => simp only [hs, Option.getD_none] at hd ⊢; exact ih s h hd
    | some s' =>
      simp only [hs, Option.getD_some] at hd ⊢
      by_cases hd' : s'.dead = true
      · -- once dead, always dead: contradiction with the final state being alive
        exfalso
        have : ∀ (l : List Act) (t : S), t.dead = true → (l.foldl (fun s a => (step F s a).getD s) t).dead = true := by
          intro l
          induction l with
          | nil => intro t ht; exact ht
          | cons b l' ihl => intro t ht; simp only [List.foldl_cons, step_dead F t b ht, Option.getD_none]; exact ihl t ht
        have := this rest s' hd'
        rw [this] at hd; cases hd
      · exact ih s' (inv_step F hF s s' a h hs (by simpa using hd')) hd


theorem doOp_cap (s s' : S) (c : Call) (op : String) (oc : Option Call) (h : doOp s c op = some (s', oc)) : s'.cap = s.cap := by
  unfold doOp at h
  cases c with
  | ins x pc =>
    simp only at h
    split at h
    · split at h
      · simp only [Option.some.injEq, Prod.mk.injEq] at h; rw [← h.1]
      · cases h
    · split at h
      · split at h <;> (simp only [Option.some.injEq, Prod.mk.injEq] at h; rw [← h.1])
      · split at h
        · split at h
          · simp only [Option.some.injEq, Prod.mk.injEq] at h; rw [← h.1]
          · cases h
        · cases h
  | fin x pc l =>
    simp only at h
    split at h
    · split at h <;> (simp only [Option.some.injEq, Prod.mk.injEq] at h; rw [← h.1])
    · split at h
      · split at h <;> (simp only [Option.some.injEq, Prod.mk.injEq] at h; rw [← h.1])
      · split at h
        · simp only [Option.some.injEq, Prod.mk.injEq] at h; rw [← h.1]
        · split at h
          · split at h
            · split at h
              · simp only [Option.some.injEq, Prod.mk.injEq] at h; rw [← h.1]
              · cases h
            · simp only [Option.some.injEq, Prod.mk.injEq] at h; rw [← h.1]
          · cases h
  | fb x pc =>
    simp only at h
    split at h
    · split at h <;> (simp only [Option.some.injEq, Prod.mk.injEq] at h; rw [← h.1])
    · split at h
      · split at h
        · simp only [Option.some.injEq, Prod.mk.injEq] at h; rw [← h.1]
        · cases h
      · cases h

theorem step_cap (F : Facts) (s s' : S) (a : Act) (h : step F s a = some s') : s'.cap = s.cap := by
  cases a with
  | call c =>
    simp only [step] at h
    split at h
    · cases h
    · split at h
      · simp only [Option.some.injEq] at h; subst h; rfl
      · simp only [Option.some.injEq] at h; subst h; rfl
      · simp only [Option.some.injEq] at h; subst h; rfl
      · cases h
  | deliver =>
    simp only [step] at h
    split at h
    · cases h
    · split at h
      · cases h
      · simp only [Option.some.injEq] at h; subst h; rfl
  | step i =>
    simp only [step] at h
    split at h
    · cases h
    · split at h
      · cases h
      · rename_i c hc
        cases hr : opResult F s c with
        | none => simp only [hr] at h; cases h
        | some r =>
          obtain ⟨s1, oc⟩ := r
          have hcap : s1.cap = s.cap := by
            unfold opResult at hr
            split at hr
            · simp only [Option.some.injEq, Prod.mk.injEq] at hr; rw [← hr.1]
            · exact doOp_cap s s1 c _ oc hr
          cases oc with
          | some c' => simp only [hr, Option.some.injEq] at h; subst h; exact hcap
          | none => simp only [hr, Option.some.injEq] at h; subst h; exact hcap

theorem run_cap (F : Facts) (acts : List Act) (s : S) : (run F s acts).cap = s.cap := by
  induction acts generalizing s with
  | nil => rfl
  | cons a rest ih =>
    simp only [run, List.foldl_cons]
    cases hs : step F s a with
    | none => simp only [Option.getD_none]; exact ih s
    | some s' => simp only [Option.getD_some]; exact (ih s').trans (step_cap F s s' a hs)

end Zeno.Model.ReactorFine
