import Zeno.Model.Disk
/-! Helper lemmas for C18 (core Lean only). -/
namespace Zeno.Model.Disk
open Zeno

/-- The fact values on which the exactness theorem rests (the property names 50 GiB and 256 GiB). -/
def okBase (F : Facts) : Bool :=
  F.gb == 1073741824 && F.msrOp == .gt && F.limitOp == .le && F.limitBytes == 274877906944 &&
  F.msrScale == 1073741824 && F.smallNum == 53687091200 && F.smallDen == 274877906944 &&
  F.largeThreshold == 53687091200 && F.freeOp == .lt && F.refuseInBranch

/-- the call sites: the configured setting and statfs' numbers reach `checkThreshold`, the watcher
pauses on refusal and resumes on acceptance -/
def okWatch (F : Facts) : Bool :=
  F.usageUsesConfigMsr && F.usageTotalBlocks && F.usageFreeBavail && F.watchPausesOnErr && F.watchResumesOnOk

/-- … and the conversion that makes the comparison exact. -/
def ok (F : Facts) : Bool := okBase F && F.conv == .ceil

/-- the way from the command line: no alias rule at all, or one that compares the key with the flag's real
default (0: "nothing given") using the float getter, and the alias key with its own default -/
def okFlag (F : Facts) : Bool :=
  F.msrFlagDefault == 0 &&
  (F.msrAliasRule == "none" ||
   (F.msrAliasRule == "copyAlias" && F.msrAliasGetter == "GetFloat64" && F.msrAliasKeyConst == F.msrFlagDefault &&
    F.msrAliasUnsetConst == F.msrAliasDefault))

/-- what suffices for monotonicity -/
def okMono (F : Facts) : Bool := F.freeOp == .lt || F.freeOp == .le

/-- Threshold written from the property text: the operator's value in GiB when given (> 0),
otherwise 50 GiB scaled down linearly for volumes of at most 256 GiB. -/
def specThreshold (total : Nat) (msr : Rat) : Rat :=
  if 0 < msr then msr * 1073741824
  else if total ≤ 274877906944 then 53687091200 * ((total : Rat) / 274877906944)
  else 53687091200

theorem gib_consts : (274877906944 : Nat) = 256 * 2 ^ 30 ∧ (53687091200 : Nat) = 50 * 2 ^ 30 ∧
    (1073741824 : Nat) = 2 ^ 30 := by decide

theorem threshold_eq_spec (F : Facts) (h : okBase F = true) (total : Nat) (msr : Rat) :
    threshold F total msr = specThreshold total msr := by
  simp only [okBase, Bool.and_eq_true, beq_iff_eq] at h
  obtain ⟨⟨⟨⟨⟨⟨⟨⟨⟨h1, h2⟩, h3⟩, h4⟩, h5⟩, h6⟩, h7⟩, h8⟩, h9⟩, h11⟩ := h
  simp only [threshold, specThreshold, h2, h3, h4, h5, h6, h7, h8, Cmp.eval, decide_eq_true_eq]
  simp

theorem nat_lt_ceil_toNat (n : Nat) (x : Rat) : n < x.ceil.toNat ↔ (n : Rat) < x := by
  rw [Int.lt_toNat]
  have := @Rat.lt_ceil_iff x (n : Int)
  rw [Rat.intCast_natCast] at this
  exact this

theorem nat_lt_floor_toNat (n : Nat) (x : Rat) : n < x.floor.toNat ↔ ((n : Rat) + 1 ≤ x) := by
  rw [Int.lt_toNat]
  have h : ((n : Int) < x.floor) ↔ ((n : Int) + 1 ≤ x.floor) := by omega
  rw [h, Rat.le_floor_iff]
  simp [Rat.intCast_add, Rat.intCast_natCast]

end Zeno.Model.Disk

namespace Zeno.Model.Disk
open Zeno

theorem inv256_pos : (0 : Rat) < (274877906944 : Rat)⁻¹ := Rat.inv_pos.mpr (by decide)

theorem specThreshold_nonneg (total : Nat) (msr : Rat) : 0 ≤ specThreshold total msr := by
  unfold specThreshold
  split
  · rename_i h; exact Rat.mul_nonneg (Rat.le_of_lt h) (by decide)
  · split
    · apply Rat.mul_nonneg (by decide)
      rw [Rat.div_def]
      exact Rat.mul_nonneg Rat.natCast_nonneg (Rat.le_of_lt inv256_pos)
    · decide

theorem specThreshold_default_le (total : Nat) (msr : Rat) (h : msr ≤ 0) :
    specThreshold total msr ≤ 53687091200 := by
  unfold specThreshold
  have h' : ¬ (0 < msr) := Rat.not_lt.mpr h
  simp only [h', if_false]
  split
  · rename_i ht
    have h1 : ((total : Rat) / 274877906944) ≤ 1 := by
      rw [Rat.div_def]
      have h2 : (total : Rat) ≤ ((274877906944 : Nat) : Rat) := Rat.natCast_le_natCast.mpr ht
      have h3 := Rat.mul_le_mul_of_nonneg_right h2 (Rat.le_of_lt inv256_pos)
      have h4 : ((274877906944 : Nat) : Rat) * (274877906944 : Rat)⁻¹ = 1 :=
        Rat.mul_inv_cancel _ (by decide)
      rw [h4] at h3
      exact h3
    have := Rat.mul_le_mul_of_nonneg_left h1 (show (0 : Rat) ≤ 53687091200 by decide)
    simpa using this
  · exact Rat.le_refl

theorem u64max_cast : ((18446744073709551615 : Int) : Rat) = 18446744073709551615 := rfl

/-- With the `ceil` conversion the decision is exactly `free < threshold`. -/
theorem refuse_exact (F : Facts) (h : ok F = true) (total free : Nat) (msr : Rat)
    (hr : specThreshold total msr ≤ 18446744073709551615) :
    refuse F total free msr = some (decide ((free : Rat) < specThreshold total msr)) := by
  simp only [ok, Bool.and_eq_true, beq_iff_eq] at h
  obtain ⟨hb, h10⟩ := h
  have ht := threshold_eq_spec F hb total msr
  have h0 := specThreshold_nonneg total msr
  simp only [okBase, Bool.and_eq_true, beq_iff_eq] at hb
  obtain ⟨⟨⟨⟨⟨⟨⟨⟨⟨h1, h2⟩, h3⟩, h4⟩, h5⟩, h6⟩, h7⟩, h8⟩, h9⟩, h11⟩ := hb
  have hc : ((specThreshold total msr).ceil : Rat) ≤ 18446744073709551615 := by
    have := (@Rat.ceil_le_iff (specThreshold total msr) 18446744073709551615).mpr
      (by rw [u64max_cast]; exact hr)
    have h2 := Rat.intCast_le_intCast.mpr this
    rw [u64max_cast] at h2
    exact h2
  have hn1 : ¬ (specThreshold total msr < 0 ∨ two64 ≤ specThreshold total msr) := by
    unfold two64; grind
  have hn2 : ¬ (two64 ≤ ((specThreshold total msr).ceil : Rat)) := by
    unfold two64; grind
  simp only [refuse, ht, toU64, h10, hn1, hn2, if_false, h11, h9, Cmp.eval, Bool.true_and]
  congr 1
  rw [decide_eq_decide]
  exact nat_lt_ceil_toNat free _

/-- With the truncating conversion (pinned tree before the D13 repair) the decision is
`free + 1 ≤ threshold`, which differs from `free < threshold` when the threshold is fractional. -/
theorem refuse_trunc (F : Facts) (hb : okBase F = true) (hc : F.conv = .trunc)
    (total free : Nat) (msr : Rat) (hr : specThreshold total msr ≤ 18446744073709551615) :
    refuse F total free msr = some (decide ((free : Rat) + 1 ≤ specThreshold total msr)) := by
  have ht := threshold_eq_spec F hb total msr
  have h0 := specThreshold_nonneg total msr
  simp only [okBase, Bool.and_eq_true, beq_iff_eq] at hb
  obtain ⟨⟨⟨⟨⟨⟨⟨⟨⟨h1, h2⟩, h3⟩, h4⟩, h5⟩, h6⟩, h7⟩, h8⟩, h9⟩, h11⟩ := hb
  have hn1 : ¬ (specThreshold total msr < 0 ∨ two64 ≤ specThreshold total msr) := by
    unfold two64; grind
  simp only [refuse, ht, toU64, hc, hn1, if_false, h11, h9, Cmp.eval, Bool.true_and]
  congr 1
  rw [decide_eq_decide]
  exact nat_lt_floor_toNat free _

/-- Monotone in free space: more free space never turns an accept into a refusal. -/
theorem refuse_mono (F : Facts) (h : okMono F = true) (total free free' : Nat) (msr : Rat)
    (hle : free ≤ free') (hr : refuse F total free' msr = some true) :
    refuse F total free msr = some true := by
  unfold refuse at *
  cases hconv : toU64 F.conv (threshold F total msr) with
  | none => simp [hconv] at hr
  | some t =>
    simp only [hconv, Option.some.injEq, Bool.and_eq_true] at hr ⊢
    refine ⟨hr.1, ?_⟩
    simp only [okMono, Bool.or_eq_true, beq_iff_eq] at h
    rcases h with h | h <;> simp only [h, Cmp.eval, decide_eq_true_eq] at hr ⊢ <;> omega

end Zeno.Model.Disk

namespace Zeno.Model.Disk

/-- After every tick the pipeline is paused exactly when the guard refuses. -/
theorem tick_tracks (F : Facts) (h : okWatch F = true) (paused low : Bool) : tick F paused low = low := by
  simp only [okWatch, Bool.and_eq_true] at h
  obtain ⟨⟨⟨⟨h1, _⟩, _⟩, h4⟩, h5⟩ := h
  cases paused <;> cases low <;> simp [tick, h1, h4, h5]

theorem watch_tracks (F : Facts) (h : okWatch F = true) (lows : List Bool) : watch F lows = lows := by
  unfold watch
  have hf : (fun (acc : Bool × List Bool) low => let p := tick F acc.1 low; (p, acc.2 ++ [p]))
      = (fun (acc : Bool × List Bool) low => (low, acc.2 ++ [low])) := by
    funext acc low; simp [tick_tracks F h]
  rw [hf]
  suffices ∀ (acc : List Bool) (p : Bool),
      (lows.foldl (fun (acc : Bool × List Bool) low => (low, acc.2 ++ [low])) (p, acc)).2 = acc ++ lows by
    simpa using this [] false
  induction lows with
  | nil => intro acc p; simp
  | cons l ls ih =>
    intro acc p
    simp only [List.foldl_cons]
    rw [ih]; simp

/-- a setting the operator gives (> 0) reaches the guard unchanged -/
theorem configured_given (F : Facts) (h : okFlag F = true) (v : Rat) (hv : 0 < v) : configured F (some v) = v := by
  simp only [okFlag, Bool.and_eq_true, Bool.or_eq_true, beq_iff_eq] at h
  obtain ⟨h0, h⟩ := h
  simp only [configured, afterAliases, Option.getD_some]
  rcases h with h | ⟨⟨⟨h1, h2⟩, h3⟩, h4⟩
  · simp [h]
  · have hne : (v == F.msrAliasKeyConst) = false := by
      rw [h3, h0]
      simp only [beq_eq_false_iff_ne, ne_eq]
      intro hc
      rw [hc] at hv
      exact absurd hv (by decide)
    simp [h1, h2, getAs, hne]

/-- nothing given: the guard sees a non-positive setting, i.e. the default threshold applies -/
theorem configured_none (F : Facts) (h : okFlag F = true) : configured F none = 0 := by
  simp only [okFlag, Bool.and_eq_true, Bool.or_eq_true, beq_iff_eq] at h
  obtain ⟨h0, h⟩ := h
  simp only [configured, afterAliases, Option.getD_none]
  rcases h with h | ⟨⟨⟨h1, h2⟩, h3⟩, h4⟩
  · simp [h, h0]
  · simp [h1, h2, getAs, h4, h0]

end Zeno.Model.Disk
