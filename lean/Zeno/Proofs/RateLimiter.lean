import Zeno.Model.RateLimiter
/-! Invariants of the token bucket over exact rationals (core Lean only). -/
set_option linter.unusedSimpArgs false
set_option linter.unnecessarySimpa false
namespace Zeno.Model.RateLimiter
open Zeno

def okConsts (F : Facts) : Bool :=
  F.minRefillRate == (1 : Rat) / 2 && F.recoveryFactor == (1 : Rat) / 10 && F.maxPenaltyNs == 30000000000 &&
  F.basePenaltyNs == 5000000000 && F.penalisedStatuses == [429, 403, 408, 425] && F.serverErrorOp == .ge &&
  F.serverErrorFrom == 500 && F.acquireOp == .ge

def okShapes (F : Facts) : Bool :=
  F.refillSkipsInPenalty && F.refillFromLaterOfLastAndPenalty && F.refillFormula && F.waitShape && F.newBucketFull &&
  F.penaltySetsUntilAndZeroes && F.failureCountIncrBoth && F.rateCutAssigns && F.successShape

/-- the two repaired expressions -/
def okFixes (F : Facts) : Bool := F.penaltyCap == "capBeforeConversion" && F.rateFloor == "minOfConstantAndIdeal"

def okTable (F : Facts) : Bool := F.evictOp == .ge && F.getBucketShape && F.evictShape

/-- `okShapes` (text comparisons of the method bodies) is superseded by the translation of the methods and is no longer required -/
def ok (F : Facts) : Bool := okConsts F && okFixes F && okTable F

theorem ok_consts {F : Facts} (h : ok F = true) : okConsts F = true := by
  simp only [ok, Bool.and_eq_true] at h; exact h.1.1
theorem ok_fixes {F : Facts} (h : ok F = true) : okFixes F = true := by
  simp only [ok, Bool.and_eq_true] at h; exact h.1.2
theorem ok_table {F : Facts} (h : ok F = true) : okTable F = true := by
  simp only [ok, Bool.and_eq_true] at h; exact h.2

structure Inv (b : TB) : Prop where
  t0 : 0 ≤ b.tokens
  tc : b.tokens ≤ b.cap
  i0 : 0 ≤ b.ideal
  rlo : min ((1 : Rat) / 2) b.ideal ≤ b.rate
  rhi : b.rate ≤ b.ideal
  /-- while a penalty is pending (set after the last refill) the bucket is empty -/
  pz : b.last < b.pen → b.tokens = 0

theorem half_pos : (0 : Rat) < 1 / 2 := by decide +kernel

theorem Inv.r0 {b : TB} (h : Inv b) : 0 ≤ b.rate := by
  have := h.rlo; have := h.i0; have := half_pos; grind

theorem half_pow_le_one (n : Nat) : ((1 : Rat) / 2) ^ n ≤ 1 := by
  induction n with
  | zero => simp
  | succ k ih =>
    rw [Rat.pow_succ]
    have h0 : (0 : Rat) ≤ (1 / 2) ^ k := Rat.pow_nonneg (by grind)
    have := Rat.mul_le_mul_of_nonneg_left (show (1 : Rat) / 2 ≤ 1 by grind) h0
    grind

theorem half_pow_nonneg (n : Nat) : (0 : Rat) ≤ ((1 : Rat) / 2) ^ n := Rat.pow_nonneg (by grind)

theorem refill_inv (b : TB) (now : Rat) (h : Inv b) : Inv (refill b now) := by
  unfold refill
  split
  · exact h
  · rename_i h1
    split
    · rename_i h2
      have hm : 0 ≤ (now - b.base) * b.rate := Rat.mul_nonneg (Rat.le_of_lt h2) h.r0
      have := h.t0; have := h.tc
      exact ⟨by simp only; grind, by simp only; grind, h.i0, h.rlo, h.rhi, by simp only; intro hc; exact absurd hc h1⟩
    · exact h

theorem refill_fields (b : TB) (now : Rat) :
    (refill b now).cap = b.cap ∧ (refill b now).ideal = b.ideal ∧ (refill b now).rate = b.rate ∧
    (refill b now).pen = b.pen ∧ (refill b now).fails = b.fails := by
  unfold refill; split
  · simp
  · split <;> simp

theorem tryAcquire_inv (F : Facts) (hF : okConsts F = true) (b : TB) (now : Rat) (h : Inv b) :
    Inv (tryAcquire F b now).1 := by
  have h' := refill_inv b now h
  simp only [okConsts, Bool.and_eq_true, beq_iff_eq] at hF
  unfold tryAcquire
  simp only [hF.2, Cmp.eval]
  split
  · rename_i hge
    simp only [decide_eq_true_eq] at hge
    have := h'.t0; have := h'.tc
    refine ⟨by simp only; grind, by simp only; grind, h'.i0, h'.rlo, h'.rhi, ?_⟩
    simp only
    intro hc
    have := h'.pz hc
    grind
  · exact h'

theorem onFailure_inv (F : Facts) (hF : okConsts F = true) (hX : okFixes F = true) (b : TB) (now : Rat)
    (st : Nat) (h : Inv b) : Inv (onFailure F b now st) := by
  simp only [okConsts, Bool.and_eq_true, beq_iff_eq] at hF
  simp only [okFixes, Bool.and_eq_true, beq_iff_eq] at hX
  have hc : 0 ≤ b.cap := Rat.le_trans h.t0 h.tc
  unfold onFailure
  split
  · exact ⟨by simp, by simpa using hc, h.i0, h.rlo, h.rhi, by simp⟩
  · split
    · have hp := half_pow_le_one (b.fails + 1)
      have hp0 := half_pow_nonneg (b.fails + 1)
      have hmul : b.rate * (1 / 2) ^ (b.fails + 1) ≤ b.rate := by
        have := Rat.mul_le_mul_of_nonneg_left hp h.r0
        simpa using this
      have := h.rlo; have := h.rhi; have := h.i0
      refine ⟨by simp, by simpa using hc, h.i0, ?_, ?_, by simp⟩
      · simp only [rateFloor, hX.2, hF.1.1.1.1.1.1.1, if_true]; grind
      · simp only [rateFloor, hX.2, hF.1.1.1.1.1.1.1, if_true]; grind
    · exact h

theorem onSuccess_inv (F : Facts) (hF : okConsts F = true) (b : TB) (now : Rat) (h : Inv b) :
    Inv (onSuccess F b now) := by
  simp only [okConsts, Bool.and_eq_true, beq_iff_eq] at hF
  unfold onSuccess
  split
  · have := h.rlo; have := h.rhi; have := h.i0
    refine ⟨h.t0, h.tc, h.i0, ?_, ?_, h.pz⟩
    · simp only [hF.1.1.1.1.1.1.2]
      split
      · split
        · grind
        · rename_i h1 h2
          have : 0 ≤ (b.ideal - b.rate) * (1 / 10) := Rat.mul_nonneg (by grind) (by grind)
          grind
      · exact h.rlo
    · simp only [hF.1.1.1.1.1.1.2]
      split
      · split
        · exact Rat.le_refl
        · rename_i h1 h2; exact Rat.not_lt.mp h2
      · exact h.rhi
  · exact h

/-- the range invariant holds after every event, at every time -/
theorem step_inv (F : Facts) (hF : okConsts F = true) (hX : okFixes F = true) (b : TB) (now : Rat) (e : Ev)
    (h : Inv b) : Inv (step F b now e).1 := by
  cases e with
  | «try» => exact tryAcquire_inv F hF b now h
  | fail st => exact onFailure_inv F hF hX b now st h
  | ok => exact onSuccess_inv F hF b now h

/-! ### the window bound, by a potential function

`pot b t` = what an ideal bucket (no penalties, refill at the configured rate) would hold at `t`.
Every step can only lower it, a release lowers it by exactly one, and letting time pass raises it
by at most `ideal` per second. -/

def pot (b : TB) (t : Rat) : Rat := min b.cap (b.tokens + (t - b.last) * b.ideal)

theorem pot_le_cap (b : TB) (t : Rat) : pot b t ≤ b.cap := by unfold pot; grind

theorem pot_time (b : TB) (t t' : Rat) (h : Inv b) (hl : b.last ≤ t) (htt : t ≤ t') :
    pot b t' ≤ pot b t + (t' - t) * b.ideal := by
  unfold pot
  have h1 : 0 ≤ (t' - t) * b.ideal := Rat.mul_nonneg (by grind) h.i0
  have h2 : (t' - b.last) * b.ideal = (t - b.last) * b.ideal + (t' - t) * b.ideal := by grind
  grind

theorem mul_le_mul' (a b c d : Rat) (h1 : 0 ≤ a) (h2 : a ≤ b) (h3 : 0 ≤ c) (h4 : c ≤ d) : a * c ≤ b * d := by
  have := Rat.mul_le_mul_of_nonneg_left h4 h1
  have := Rat.mul_le_mul_of_nonneg_right h2 (Rat.le_trans h3 h4)
  grind

theorem base_ge_last (b : TB) : b.last ≤ b.base := by unfold TB.base; split <;> grind

theorem refill_pot (b : TB) (t : Rat) (h : Inv b) (hl : b.last ≤ t) :
    (refill b t).last ≤ t ∧ pot (refill b t) t ≤ pot b t := by
  unfold refill
  split
  · exact ⟨hl, Rat.le_refl⟩
  · split
    · rename_i h1 h2
      refine ⟨by simp only; exact Rat.le_refl, ?_⟩
      have hb := base_ge_last b
      have hmul : (t - b.base) * b.rate ≤ (t - b.last) * b.ideal :=
        mul_le_mul' _ _ _ _ (Rat.le_of_lt h2) (by grind) h.r0 h.rhi
      have := h.tc; have := h.t0
      simp only [pot]
      have hz : (t - t) * b.ideal = 0 := by grind
      rw [hz]
      grind
    · exact ⟨hl, Rat.le_refl⟩

/-- one step: the bucket's clock does not pass `t`, `cap`/`ideal` are constant, and the potential
pays for the release -/
theorem step_pot (F : Facts) (hF : okConsts F = true) (hX : okFixes F = true) (b : TB) (t : Rat) (e : Ev)
    (h : Inv b) (hl : b.last ≤ t) :
    (step F b t e).1.last ≤ t ∧ (step F b t e).1.ideal = b.ideal ∧ (step F b t e).1.cap = b.cap ∧
    pot (step F b t e).1 t + (if (step F b t e).2 then 1 else 0) ≤ pot b t := by
  have hF' := hF
  simp only [okConsts, Bool.and_eq_true, beq_iff_eq] at hF'
  cases e with
  | «try» =>
    have hr := refill_pot b t h hl
    have hi := refill_inv b t h
    have hf := refill_fields b t
    simp only [step, tryAcquire, hF'.2, Cmp.eval]
    split
    · rename_i hge
      simp only [decide_eq_true_eq] at hge
      refine ⟨hr.1, hf.2.1, hf.1, ?_⟩
      -- a token was there, so no penalty is pending, so the clock stands at `t`
      have hnp : ¬ ((refill b t).last < (refill b t).pen) := by
        intro hc; have := hi.pz hc; grind
      have hlast : (refill b t).last = t := by
        unfold refill at hnp hge ⊢
        split
        · rename_i h1
          simp only [h1, if_true] at hnp hge
          exact absurd (show b.last < b.pen by grind) hnp
        · rename_i h1
          split
          · rfl
          · rename_i h2
            simp only [h1, h2, if_false] at hnp hge
            have hb : b.base = b.last := by unfold TB.base; split <;> grind
            grind
      have := hr.2
      simp only [pot, hlast] at this ⊢
      have hz : (t - t) * (refill b t).ideal = 0 := by grind
      simp only [hz] at this ⊢
      have := hi.tc
      grind
    · refine ⟨hr.1, hf.2.1, hf.1, ?_⟩
      simp only [Bool.false_eq_true, if_false]
      have := hr.2; grind
  | fail st =>
    simp only [step, onFailure, Bool.false_eq_true, if_false]
    have hmul : 0 ≤ (t - b.last) * b.ideal := Rat.mul_nonneg (by grind) h.i0
    have := h.t0; have := h.tc
    split
    · exact ⟨hl, rfl, rfl, by simp only [pot]; grind⟩
    · split
      · exact ⟨hl, rfl, rfl, by simp only [pot]; grind⟩
      · exact ⟨hl, rfl, rfl, by grind⟩
  | ok =>
    simp only [step, onSuccess, Bool.false_eq_true, if_false]
    split
    · exact ⟨hl, rfl, rfl, by simp only [pot]; grind⟩
    · exact ⟨hl, rfl, rfl, by grind⟩

/-- event times are non-decreasing, start at `t0` or later and do not pass `tEnd` -/
def Timed (t0 tEnd : Rat) : List (Rat × Ev) → Prop
  | [] => True
  | (t, _) :: rest => t0 ≤ t ∧ t ≤ tEnd ∧ Timed t tEnd rest

theorem run_bound (F : Facts) (hF : okConsts F = true) (hX : okFixes F = true) (evs : List (Rat × Ev))
    (b : TB) (t0 tEnd : Rat) (h : Inv b) (hl : b.last ≤ t0) (ht : Timed t0 tEnd evs) (hte : t0 ≤ tEnd) :
    ((run F b evs).2 : Rat) ≤ pot b t0 + (tEnd - t0) * b.ideal := by
  induction evs generalizing b t0 with
  | nil =>
    simp only [run]
    have : 0 ≤ (tEnd - t0) * b.ideal := Rat.mul_nonneg (by grind) h.i0
    have hp : 0 ≤ pot b t0 := by
      unfold pot
      have : 0 ≤ (t0 - b.last) * b.ideal := Rat.mul_nonneg (by grind) h.i0
      have := h.t0; have := h.tc; grind
    simp; grind
  | cons te rest ih =>
    obtain ⟨t, e⟩ := te
    obtain ⟨h0, h1, hrest⟩ := ht
    have hs := step_pot F hF hX b t e h (Rat.le_trans hl h0)
    have hi := step_inv F hF hX b t e h
    have hih := ih (step F b t e).1 t hi hs.1 hrest h1
    have hpt := pot_time b t0 t h hl h0
    simp only [run]
    rw [hs.2.1] at hih
    have hsplit : (tEnd - t0) * b.ideal = (t - t0) * b.ideal + (tEnd - t) * b.ideal := by grind
    have hcast : (((run F (step F b t e).1 rest).2 + (if (step F b t e).2 = true then 1 else 0) : Nat) : Rat)
        = ((run F (step F b t e).1 rest).2 : Rat) + (if (step F b t e).2 = true then 1 else 0) := by
      split
      · simp [Rat.natCast_add]
      · simp [Rat.add_zero]
    rw [hcast]
    have := hs.2.2.2
    grind

/-- **Window bound.** Whatever happened before, over any window `[a, a + T]` the limiter releases at
most `capacity + T × configured-rate` requests, for every sequence of events and timings in it. -/
theorem window_bound (F : Facts) (hF : okConsts F = true) (hX : okFixes F = true) (evs : List (Rat × Ev))
    (b : TB) (a T : Rat) (h : Inv b) (hl : b.last ≤ a) (hT : 0 ≤ T) (ht : Timed a (a + T) evs) :
    ((run F b evs).2 : Rat) ≤ b.cap + T * b.ideal := by
  have := run_bound F hF hX evs b a (a + T) h hl ht (by grind)
  have hp := pot_le_cap b a
  have : (a + T - a) * b.ideal = T * b.ideal := by grind
  grind

/-! ### penalties -/

/-- with the cap applied before the conversion the penalty is `min(5·2^(n-1), 30)` seconds -/
theorem penalty_eq (F : Facts) (hF : okConsts F = true) (hX : okFixes F = true) (n : Nat) :
    penalty F n = nsToSec (min ((5000000000 : Int) * 2 ^ (n - 1)) 30000000000) := by
  simp only [okConsts, Bool.and_eq_true, beq_iff_eq] at hF
  simp only [okFixes, Bool.and_eq_true, beq_iff_eq] at hX
  simp only [penalty, hX.1, hF.1.1.1.1.2, hF.1.1.1.1.1.2]
  simp

theorem nsToSec_mono {a b : Int} (h : a ≤ b) : nsToSec a ≤ nsToSec b := by
  unfold nsToSec
  rw [Rat.div_def, Rat.div_def]
  exact Rat.mul_le_mul_of_nonneg_right (Rat.intCast_le_intCast.mpr h) (Rat.le_of_lt (Rat.inv_pos.mpr (by decide)))

theorem nsToSec_nonneg {a : Int} (h : 0 ≤ a) : 0 ≤ nsToSec a := by
  have := nsToSec_mono h
  have h0 : nsToSec 0 = 0 := by unfold nsToSec; rw [Rat.div_def]; simp
  rw [h0] at this; exact this

theorem int_two_pow_mono (n m : Nat) (h : n ≤ m) : (2 : Int) ^ n ≤ 2 ^ m := by
  have := Nat.pow_le_pow_right (show 2 > 0 by decide) h
  exact_mod_cast this

theorem penalty_nonneg (F : Facts) (hF : okConsts F = true) (hX : okFixes F = true) (n : Nat) :
    0 ≤ penalty F n := by
  rw [penalty_eq F hF hX]
  apply nsToSec_nonneg
  have : (0 : Int) ≤ 5000000000 * 2 ^ (n - 1) := Int.mul_nonneg (by decide) (Int.pow_nonneg (by decide))
  omega

theorem penalty_mono (F : Facts) (hF : okConsts F = true) (hX : okFixes F = true) (n m : Nat) (h : n ≤ m) :
    penalty F n ≤ penalty F m := by
  rw [penalty_eq F hF hX, penalty_eq F hF hX]
  apply nsToSec_mono
  have hp : (2 : Int) ^ (n - 1) ≤ 2 ^ (m - 1) := int_two_pow_mono _ _ (by omega)
  have : (5000000000 : Int) * 2 ^ (n - 1) ≤ 5000000000 * 2 ^ (m - 1) := Int.mul_le_mul_of_nonneg_left hp (by decide)
  omega

/-- event times lie in `[t0, tEnd)` and are non-decreasing -/
def TimedLt (t0 tEnd : Rat) : List (Rat × Ev) → Prop
  | [] => True
  | (t, _) :: rest => t0 ≤ t ∧ t < tEnd ∧ TimedLt t tEnd rest

/-- state of a bucket serving a penalty that lasts at least until `until'` -/
structure Serving (F : Facts) (b : TB) (until' : Rat) (n : Nat) : Prop where
  empty : b.tokens = 0
  pen : until' ≤ b.pen
  fails : n ≤ b.fails

theorem serving_step (F : Facts) (hF : okConsts F = true) (hX : okFixes F = true) (b : TB) (t0 until' : Rat) (n : Nat)
    (t : Rat) (e : Ev) (hs : Serving F b (t0 + penalty F n) n) (h0 : t0 ≤ t) (hlt : t < t0 + penalty F n) :
    Serving F (step F b t e).1 (t0 + penalty F n) n ∧ (step F b t e).2 = false := by
  have hF' := hF
  simp only [okConsts, Bool.and_eq_true, beq_iff_eq] at hF'
  have hpen : t < b.pen := by have := hs.pen; grind
  cases e with
  | «try» =>
    have hr : refill b t = b := by unfold refill; simp [hpen]
    simp only [step, tryAcquire, hr, hF'.2, Cmp.eval, hs.empty]
    have : ¬ ((1 : Rat) ≤ 0) := by decide
    simp [this]; exact hs
  | fail st =>
    simp only [step, onFailure]
    split
    · refine ⟨⟨rfl, ?_, by simp only; have := hs.fails; omega⟩, by simp⟩
      simp only
      have := penalty_mono F hF hX n (b.fails + 1) (by have := hs.fails; omega)
      grind
    · split
      · exact ⟨⟨rfl, hs.pen, by simp only; have := hs.fails; omega⟩, by simp⟩
      · exact ⟨hs, by simp⟩
  | ok =>
    simp only [step, onSuccess]
    have : ¬ (b.pen < t) := by grind
    simp [this]; exact hs

/-- **Penalty honoured.** After a 429/403/408/425 at time `t0` that is the `n`-th consecutive
failure, no request is released at any time in `[t0, t0 + min(5·2^(n-1), 30) s)`, whatever events
(further failures of any kind, successes, attempts) happen in between. -/
theorem penalty_honoured (F : Facts) (hF : okConsts F = true) (hX : okFixes F = true) (b : TB) (t0 : Rat)
    (st : Nat) (hst : isPenalised F st = true) (evs : List (Rat × Ev))
    (ht : TimedLt t0 (t0 + penalty F (b.fails + 1)) evs) :
    (run F (onFailure F b t0 st) evs).2 = 0 := by
  have hserv : Serving F (onFailure F b t0 st) (t0 + penalty F (b.fails + 1)) (b.fails + 1) := by
    simp only [onFailure, hst, if_true]
    exact ⟨rfl, Rat.le_refl, Nat.le_refl _⟩
  generalize onFailure F b t0 st = b1 at hserv
  generalize hn : b.fails + 1 = n at hserv ht
  clear hn
  induction evs generalizing b1 t0 with
  | nil => simp [run]
  | cons te rest ih =>
    obtain ⟨t, e⟩ := te
    obtain ⟨h0, h1, hrest⟩ := ht
    have hs := serving_step F hF hX b1 t0 (t0 + penalty F n) n t e hserv h0 h1
    simp only [run, hs.2, Bool.false_eq_true, if_false, Nat.add_zero]
    -- the remaining events are timed from `t`, and the penalty end is unchanged
    have hrest' : TimedLt t (t0 + penalty F n) rest := hrest
    -- re-anchor: Serving is stated with the absolute end, so generalise it
    have key : ∀ (evs : List (Rat × Ev)) (b2 : TB) (s : Rat) (endT : Rat),
        Serving F b2 endT n → endT ≤ t0 + penalty F n → t0 ≤ s →
        (∀ b3 t' e', Serving F b3 endT n → s ≤ t' → t' < endT → Serving F (step F b3 t' e').1 endT n ∧ (step F b3 t' e').2 = false) →
        TimedLt s endT evs → (run F b2 evs).2 = 0 := by
      intro evs
      induction evs with
      | nil => intros; simp [run]
      | cons te' rest' ih' =>
        intro b2 s endT hsv hle hs0 hstep htl
        obtain ⟨t', e'⟩ := te'
        obtain ⟨g0, g1, grest⟩ := htl
        have := hstep b2 t' e' hsv g0 g1
        simp only [run, this.2, Bool.false_eq_true, if_false, Nat.add_zero]
        exact ih' _ t' endT this.1 hle (Rat.le_trans hs0 g0)
          (fun b3 t'' e'' h3 hs'' hl'' => hstep b3 t'' e'' h3 (Rat.le_trans g0 hs'') hl'') grest
    exact key rest _ t (t0 + penalty F n) hs.1 Rat.le_refl h0
      (fun b3 t' e' h3 hs' hl' => serving_step F hF hX b3 t0 (t0 + penalty F n) n t' e' h3 (Rat.le_trans h0 hs') hl') hrest'

/-! ### rate adjustments -/

/-- a 5xx only lowers the rate (and empties the bucket); a 429-class failure leaves the rate alone -/
theorem failure_rate (F : Facts) (hF : okConsts F = true) (hX : okFixes F = true) (b : TB) (now : Rat) (st : Nat)
    (h : Inv b) : (onFailure F b now st).rate ≤ b.rate := by
  simp only [okConsts, Bool.and_eq_true, beq_iff_eq] at hF
  simp only [okFixes, Bool.and_eq_true, beq_iff_eq] at hX
  unfold onFailure
  split
  · exact Rat.le_refl
  · split
    · have hp := half_pow_le_one (b.fails + 1)
      have hmul : b.rate * (1 / 2) ^ (b.fails + 1) ≤ b.rate := by
        have := Rat.mul_le_mul_of_nonneg_left hp h.r0
        simpa using this
      have := h.rlo
      simp only [rateFloor, hX.2, hF.1.1.1.1.1.1.1, if_true]; grind
    · exact Rat.le_refl

/-- a success only raises the rate, toward and never above the configured rate -/
theorem success_rate (F : Facts) (hF : okConsts F = true) (b : TB) (now : Rat) (h : Inv b) :
    b.rate ≤ (onSuccess F b now).rate ∧ (onSuccess F b now).rate ≤ b.ideal := by
  have hid : (onSuccess F b now).ideal = b.ideal := by unfold onSuccess; split <;> rfl
  refine ⟨?_, hid ▸ (onSuccess_inv F hF b now h).rhi⟩
  simp only [okConsts, Bool.and_eq_true, beq_iff_eq] at hF
  unfold onSuccess
  split
  · simp only [hF.1.1.1.1.1.1.2]
    split
    · rename_i h1
      split
      · exact Rat.le_of_lt h1
      · have : 0 ≤ (b.ideal - b.rate) * (1 / 10) := Rat.mul_nonneg (by grind) (by grind)
        grind
    · exact Rat.le_refl
  · exact Rat.le_refl

/-! ### the bucket table stays within its bound -/

def minFold (tbl : List MB) (a : Nat) : Nat := tbl.foldl (fun acc e => if e.usage < acc then e.usage else acc) a

theorem minFold_spec (tbl : List MB) (a : Nat) :
    minFold tbl a ≤ a ∧ (minFold tbl a = a ∨ ∃ e ∈ tbl, e.usage = minFold tbl a) ∧ ∀ e ∈ tbl, minFold tbl a ≤ e.usage := by
  induction tbl generalizing a with
  | nil => simp [minFold]
  | cons x xs ih =>
    simp only [minFold, List.foldl_cons]
    by_cases hx : x.usage < a
    · simp only [hx, if_true]
      obtain ⟨h1, h2, h3⟩ := ih x.usage
      simp only [minFold] at h1 h2 h3
      refine ⟨by omega, ?_, ?_⟩
      · rcases h2 with h2 | ⟨e, he, hu⟩
        · right; exact ⟨x, List.mem_cons_self, h2.symm⟩
        · right; exact ⟨e, List.mem_cons_of_mem _ he, hu⟩
      · intro e he
        rcases List.mem_cons.mp he with he | he
        · subst he; exact h1
        · exact h3 e he
    · simp only [hx, if_false]
      obtain ⟨h1, h2, h3⟩ := ih a
      simp only [minFold] at h1 h2 h3
      refine ⟨h1, ?_, ?_⟩
      · rcases h2 with h2 | ⟨e, he, hu⟩
        · left; exact h2
        · right; exact ⟨e, List.mem_cons_of_mem _ he, hu⟩
      · intro e he
        rcases List.mem_cons.mp he with he | he
        · subst he; omega
        · exact h3 e he

/-- every entry is evictable: its usage count is below MaxInt32 and its host is not the empty string -/
def Evictable (tbl : List MB) : Prop := ∀ e ∈ tbl, e.usage < 2147483647 ∧ e.host ≠ ""

theorem evict_len (tbl : List MB) (h : Evictable tbl) (hne : tbl ≠ []) : (evictLFU tbl).length + 1 = tbl.length := by
  unfold evictLFU
  cases tbl with
  | nil => exact absurd rfl hne
  | cons x xs =>
    simp only
    have hs := minFold_spec (x :: xs) 2147483647
    simp only [minFold] at hs
    obtain ⟨h1, h2, h3⟩ := hs
    have hlt : List.foldl (fun acc e => if e.usage < acc then e.usage else acc) 2147483647 (x :: xs) < 2147483647 := by
      have := h3 x List.mem_cons_self
      have := (h x List.mem_cons_self).1
      omega
    have hne' : ¬ (List.foldl (fun acc e => if e.usage < acc then e.usage else acc) 2147483647 (x :: xs) = 2147483647) := by omega
    simp only [hne', if_false]
    obtain ⟨e, he, hu⟩ := h2.resolve_left hne'
    cases hf : (x :: xs).findIdx? (fun e => e.usage == List.foldl (fun acc e => if e.usage < acc then e.usage else acc) 2147483647 (x :: xs)) with
    | none =>
      rw [List.findIdx?_eq_none_iff] at hf
      have := hf e he
      simp [hu] at this
    | some i =>
      simp only
      have hi := List.findIdx?_eq_some_iff_getElem.mp hf
      obtain ⟨hlen, _, _⟩ := hi
      have hget : (x :: xs)[i]? = some (x :: xs)[i] := List.getElem?_eq_getElem hlen
      have hhost : (x :: xs)[i].host ≠ "" := (h _ (List.getElem_mem hlen)).2
      have : ((x :: xs)[i].host == "") = false := by simpa using hhost
      simp only [hget, this, Bool.false_eq_true, if_false, List.length_eraseIdx, hlen, if_true]
      simp only [List.length_cons] at hlen ⊢
      omega

/-- one access keeps the table within `max maxBuckets 1` entries -/
theorem getBucket_len (F : Facts) (hF : okTable F = true) (m : Nat) (tbl : List MB) (host : String)
    (h : Evictable tbl) (hl : tbl.length ≤ max m 1) : (getBucket F m tbl host).length ≤ max m 1 := by
  simp only [okTable, Bool.and_eq_true, beq_iff_eq] at hF
  unfold getBucket
  split
  · simpa using hl
  · simp only [hF.1.1, Cmp.eval, decide_eq_true_eq, List.length_append, List.length_cons, List.length_nil]
    split
    · rename_i hge
      by_cases hne : tbl = []
      · subst hne; simp [evictLFU]; omega
      · have := evict_len tbl h hne
        omega
    · omega

theorem evict_subset (tbl : List MB) : ∀ e ∈ evictLFU tbl, e ∈ tbl := by
  intro e he
  unfold evictLFU at he
  cases tbl with
  | nil => exact he
  | cons x xs =>
    simp only at he
    split at he
    · exact he
    · split at he
      · split at he
        · split at he
          · exact he
          · exact List.mem_of_mem_eraseIdx he
        · exact he
      · exact he

/-- usage counts are at most the number of accesses so far; hosts are non-empty -/
def TInv (k : Nat) (tbl : List MB) : Prop := ∀ e ∈ tbl, e.usage ≤ k ∧ e.host ≠ ""

theorem getBucket_tinv (F : Facts) (m k : Nat) (tbl : List MB) (host : String) (hh : host ≠ "")
    (h : TInv k tbl) : TInv (k + 1) (getBucket F m tbl host) := by
  unfold getBucket
  split
  · intro e he
    rw [List.mem_map] at he
    obtain ⟨e0, he0, rfl⟩ := he
    have := h e0 he0
    split
    · exact ⟨by simp only; omega, this.2⟩
    · exact ⟨by omega, this.2⟩
  · intro e he
    rw [List.mem_append] at he
    rcases he with he | he
    · have hmem : e ∈ tbl := by
        split at he
        · exact evict_subset tbl e he
        · exact he
      have := h e hmem
      exact ⟨by omega, this.2⟩
    · simp only [List.mem_singleton] at he
      subst he
      exact ⟨by simp only; omega, hh⟩

/-- **The limiter table stays within its bound** for every access sequence (hosts non-empty, fewer
than 2^31 − 1 accesses in total — beyond that a usage count could reach MaxInt32 and stop being
evictable). -/
theorem table_bounded (F : Facts) (hF : okTable F = true) (m : Nat) (hosts : List String) (tbl : List MB) (k : Nat)
    (hh : ∀ x ∈ hosts, x ≠ "") (hk : k + hosts.length < 2147483647) (ht : TInv k tbl)
    (hl : tbl.length ≤ max m 1) : (hosts.foldl (getBucket F m) tbl).length ≤ max m 1 := by
  induction hosts generalizing tbl k with
  | nil => simpa using hl
  | cons x xs ih =>
    simp only [List.foldl_cons]
    simp only [List.length_cons] at hk
    have hev : Evictable tbl := fun e he => ⟨by have := (ht e he).1; omega, (ht e he).2⟩
    exact ih (getBucket F m tbl x) (k + 1) (fun y hy => hh y (List.mem_cons_of_mem _ hy)) (by omega)
      (getBucket_tinv F m k tbl x (hh x List.mem_cons_self) ht) (getBucket_len F hF m tbl x hev hl)

end Zeno.Model.RateLimiter
