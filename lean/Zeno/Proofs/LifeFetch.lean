import Zeno.Proofs.LifeCheck
/-!
Within one seed's tree no URL is fetched by two different non-seed nodes — across all passes (C08), for the stage models
composed in `Model/Life.lean`.

Two facts carry it: (i) after `preprocess` the non-seed nodes of the tree have pairwise distinct canonical URLs (de-duplication),
so a node that gets a request shares its URL with no other node; (ii) a node that was processed once (it is no longer Fresh) is
never removed from the tree and keeps its id and URL — de-duplication drops Fresh duplicates only, the filters remove Fresh
nodes only — so it is still there, with that URL, when a later duplicate shows up.
-/
set_option linter.unusedSimpArgs false
set_option linter.unusedVariables false
namespace Zeno.Model.Life
open Zeno Zeno.Model.Item Zeno.Model.Stages

/-- what identifies a node for this argument: its id, its canonical URL, and whether it is still Fresh -/
def key (i : Info) : String × String × Bool := (i.id, i.url, i.st == .fresh)

/-! ### operations as maps on the flattened tree -/

mutual
theorem Tree.flatten_setNorm (ks : List (String × NormRes)) (t : Tree) : (t.setNorm ks).flatten = t.flatten.map (normInfo ks) := by
  match t with
  | .node i k =>
    simp only [Tree.setNorm, Tree.flatten, List.map_cons, Forest.flatten_setNorm ks k, normInfo]
    cases List.lookup i.id ks <;> rfl
theorem Forest.flatten_setNorm (ks : List (String × NormRes)) (f : Forest) : (f.setNorm ks).flatten = f.flatten.map (normInfo ks) := by
  match f with
  | .nil => rfl
  | .cons t f => simp only [Forest.setNorm, Forest.flatten, List.map_append, Tree.flatten_setNorm ks t, Forest.flatten_setNorm ks f]
end

mutual
theorem Tree.flatten_setStatuses (l : List String) (s : Status) (rq : Bool) (t : Tree) :
    (t.setStatuses l s rq).flatten = t.flatten.map (stamp l s rq) := by
  match t with
  | .node i k => simp only [Tree.setStatuses, Tree.flatten, List.map_cons, Forest.flatten_setStatuses l s rq k, stamp]
theorem Forest.flatten_setStatuses (l : List String) (s : Status) (rq : Bool) (f : Forest) :
    (f.setStatuses l s rq).flatten = f.flatten.map (stamp l s rq) := by
  match f with
  | .nil => rfl
  | .cons t f => simp only [Forest.setStatuses, Forest.flatten, List.map_append, Tree.flatten_setStatuses l s rq t, Forest.flatten_setStatuses l s rq f]
end

mutual
/-- `archive` changes PreProcessed into Archived / Failed: ids, URLs and freshness stay -/
theorem Tree.flatten_archive_key (srv : String → Option Outcome) (d lvl : Nat) (t : Tree) :
    (t.archive srv d lvl).flatten.map key = t.flatten.map key := by
  match t with
  | .node i k =>
    simp only [Tree.archive]
    split
    · split
      · rename_i hpp
        have hnf : (i.st == Status.fresh) = false := by
          have : i.st = .preProcessed := by simpa using hpp
          rw [this]; rfl
        split
        · split <;> simp [Tree.flatten, key, hnf]
        · simp [Tree.flatten, key, hnf]
      · rfl
    · simp only [Tree.flatten, List.map_cons, Forest.flatten_archive_key srv d (lvl + 1) k]
theorem Forest.flatten_archive_key (srv : String → Option Outcome) (d lvl : Nat) (f : Forest) :
    (f.archive srv d lvl).flatten.map key = f.flatten.map key := by
  match f with
  | .nil => rfl
  | .cons t f => simp only [Forest.archive, Forest.flatten, List.map_append, Tree.flatten_archive_key srv d lvl t, Forest.flatten_archive_key srv d lvl f]
end

mutual
/-- completion marking relabels GotChildren / GotRedirected nodes only -/
theorem Tree.flatten_mark_key (F : IF) (hF : okSets F = true) (t : Tree) : (t.mark F).flatten.map key = t.flatten.map key := by
  match t with
  | .node i k =>
    simp only [Tree.mark]
    split
    · rename_i hc
      have hm : (i.st == .gotChildren || i.st == .gotRedirected) = true := by
        rw [← markable_eq F hF]; exact (Bool.and_eq_true _ _ ▸ hc).2
      have hnf : (i.st == Status.fresh) = false := by cases hs : i.st <;> simp_all
      simp [Tree.flatten, key, hnf, Forest.flatten_mark_key F hF k]
    · simp [Tree.flatten, Forest.flatten_mark_key F hF k]
theorem Forest.flatten_mark_key (F : IF) (hF : okSets F = true) (f : Forest) : (f.mark F).flatten.map key = f.flatten.map key := by
  match f with
  | .nil => rfl
  | .cons t f => simp only [Forest.mark, Forest.flatten, List.map_append, Tree.flatten_mark_key F hF t, Forest.flatten_mark_key F hF f]
end

theorem mem_of_map_key_eq {a b : List Info} (h : a.map key = b.map key) (i : Info) (hi : i ∈ b) : ∃ j ∈ a, key j = key i := by
  have : key i ∈ b.map key := List.mem_map.2 ⟨i, hi, rfl⟩
  rw [← h] at this
  obtain ⟨j, hj, hk⟩ := List.mem_map.1 this
  exact ⟨j, hj, hk⟩


theorem leaves_flatten (kids : List Info) : (leaves kids).flatten = kids := by
  induction kids with
  | nil => rfl
  | cons c cs ih => simp [leaves, Forest.flatten, Tree.flatten, ih]

/-- where the nodes of the post-processed tree come from: an old node with the same key, or a new Fresh child -/
def PostNodes (old : List Info) (new : List Info) : Prop :=
  (∀ i ∈ old, ∃ j ∈ new, key j = key i) ∧ (∀ j ∈ new, (∃ i ∈ old, key i = key j) ∨ j.st = .fresh)

theorem PostNodes.cons {o n : List Info} (i j : Info) (hk : key j = key i) (h : PostNodes o n) : PostNodes (i :: o) (j :: n) := by
  refine ⟨?_, ?_⟩
  · intro x hx
    simp only [List.mem_cons] at hx
    rcases hx with rfl | hx
    · exact ⟨j, by simp, hk⟩
    · obtain ⟨y, hy, hky⟩ := h.1 x hx
      exact ⟨y, by simp [hy], hky⟩
  · intro y hy
    simp only [List.mem_cons] at hy
    rcases hy with rfl | hy
    · exact Or.inl ⟨i, by simp, hk.symm⟩
    · rcases h.2 y hy with ⟨x, hx, hkx⟩ | hf
      · exact Or.inl ⟨x, by simp [hx], hkx⟩
      · exact Or.inr hf

theorem PostNodes.append {o1 n1 o2 n2 : List Info} (h1 : PostNodes o1 n1) (h2 : PostNodes o2 n2) : PostNodes (o1 ++ o2) (n1 ++ n2) := by
  refine ⟨?_, ?_⟩
  · intro x hx
    rcases List.mem_append.1 hx with hx | hx
    · obtain ⟨y, hy, hk⟩ := h1.1 x hx; exact ⟨y, by simp [hy], hk⟩
    · obtain ⟨y, hy, hk⟩ := h2.1 x hx; exact ⟨y, by simp [hy], hk⟩
  · intro y hy
    rcases List.mem_append.1 hy with hy | hy
    · rcases h1.2 y hy with ⟨x, hx, hk⟩ | hf
      · exact Or.inl ⟨x, by simp [hx], hk⟩
      · exact Or.inr hf
    · rcases h2.2 y hy with ⟨x, hx, hk⟩ | hf
      · exact Or.inl ⟨x, by simp [hx], hk⟩
      · exact Or.inr hf

theorem PostNodes.refl (l : List Info) : PostNodes l l :=
  ⟨fun i hi => ⟨i, hi, rfl⟩, fun j hj => Or.inl ⟨j, hj, rfl⟩⟩

theorem PostNodes.addFresh {o n : List Info} (h : PostNodes o n) (extra : List Info) (hf : ∀ c ∈ extra, c.st = .fresh) :
    PostNodes o (n ++ extra) := by
  refine ⟨fun i hi => ?_, fun j hj => ?_⟩
  · obtain ⟨j, hj, hk⟩ := h.1 i hi; exact ⟨j, by simp [hj], hk⟩
  · rcases List.mem_append.1 hj with hj | hj
    · exact h.2 j hj
    · exact Or.inr (hf j hj)

mutual
theorem Tree.flatten_post (S : SF) (hS : okPost S = true) (cfg : Cfg) (ex : String → Extract) (d lvl : Nat) (pdnr : Int) (isSeed : Bool)
    (t : Tree) : PostNodes t.flatten (t.post S cfg ex d lvl pdnr isSeed).1.flatten := by
  match t with
  | .node i k =>
    unfold Tree.post
    split
    · split
      · rename_i harch
        have hnf : (i.st == Status.fresh) = false := by
          have : i.st = .archived := by simpa using harch
          rw [this]; rfl
        show PostNodes _ ((match postAct S cfg ex i (nodeDnr isSeed i.st pdnr) with
            | PostAct.complete => _ | PostAct.redirect c => _ | PostAct.extract kids outs => _ : Tree × List Outlink).1).flatten
        split
        · simp only [Tree.flatten]
          exact PostNodes.cons i _ (by simp [key, hnf]) (PostNodes.refl _)
        · rename_i c hc
          obtain ⟨_, _, _, _, hfresh⟩ := redirect_child S hS cfg ex i _ c hc
          simp only [Tree.flatten, Forest.flatten_append, Forest.flatten, Tree.flatten, List.append_nil]
          exact PostNodes.cons i _ (by simp [key, hnf]) ((PostNodes.refl _).addFresh [c] (by intro c' hc'; simp at hc'; rw [hc']; exact hfresh))
        · rename_i kids outs hc
          obtain ⟨hkids, _⟩ := extraction_hops S hS cfg ex i _ kids outs hc
          rw [foldl_append_leaves]
          simp only [Tree.flatten, Forest.flatten_append, leaves_flatten]
          refine PostNodes.cons i _ ?_ ((PostNodes.refl _).addFresh kids (fun c hc' => (hkids c hc').2.2))
          simp only [key, hnf, Prod.mk.injEq, true_and]
          split <;> rfl
      · simp only [Tree.flatten]
        exact PostNodes.cons i _ (by simp [key]) (PostNodes.refl _)
    · have hk := Forest.flatten_post S hS cfg ex d (lvl + 1) (nodeDnr isSeed i.st pdnr) k
      show PostNodes _ (match Forest.post S cfg ex d (lvl + 1) (nodeDnr isSeed i.st pdnr) k with
        | (k', outs) => ((Tree.node { i with body := false } k', outs) : Tree × List Outlink)).1.flatten
      cases hp : Forest.post S cfg ex d (lvl + 1) (nodeDnr isSeed i.st pdnr) k with
      | mk k' outs =>
        rw [hp] at hk
        simp only [Tree.flatten]
        exact PostNodes.cons i _ (by simp [key]) hk
theorem Forest.flatten_post (S : SF) (hS : okPost S = true) (cfg : Cfg) (ex : String → Extract) (d lvl : Nat) (pdnr : Int) (f : Forest) :
    PostNodes f.flatten (f.post S cfg ex d lvl pdnr).1.flatten := by
  match f with
  | .nil => simp only [Forest.post, Forest.flatten]; exact PostNodes.refl _
  | .cons t f =>
    simp only [Forest.post, Forest.flatten]
    exact (Tree.flatten_post S hS cfg ex d lvl pdnr false t).append (Forest.flatten_post S hS cfg ex d lvl pdnr f)
end


/-! ### small tools -/

theorem eq_of_nodup_map {α β} (f : α → β) (l : List α) (h : (l.map f).Nodup) (a b : α) (ha : a ∈ l) (hb : b ∈ l) (hf : f a = f b) : a = b := by
  induction l with
  | nil => cases ha
  | cons x xs ih =>
    simp only [List.map_cons, List.nodup_cons, List.mem_map, not_exists, not_and] at h
    simp only [List.mem_cons] at ha hb
    rcases ha with rfl | ha <;> rcases hb with rfl | hb
    · rfl
    · exact absurd hf.symm (h.1 b hb)
    · exact absurd hf (h.1 a ha)
    · exact ih h.2 ha hb

/-- the ids `scan` removes or keeps belong to the nodes it scanned -/
theorem scan_ids (cfg : Cfg) (norm : String → Option NormRes) (t : Tree) (items : List Info) :
    (∀ x ∈ (scan cfg norm t items).1, ∃ i ∈ items, i.id = x) ∧ (∀ kr ∈ (scan cfg norm t items).2.1, ∃ i ∈ items, i.id = kr.1) := by
  induction items with
  | nil => simp [scan]
  | cons i rest ih =>
    unfold scan
    cases verdict cfg norm t i with
    | panic => simp
    | stop st => simp
    | remove =>
      simp only
      refine ⟨?_, ?_⟩
      · intro x hx
        simp only [List.mem_cons] at hx
        rcases hx with rfl | hx
        · exact ⟨i, by simp, rfl⟩
        · obtain ⟨j, hj, hid⟩ := ih.1 x hx; exact ⟨j, by simp [hj], hid⟩
      · intro kr hkr
        obtain ⟨j, hj, hid⟩ := ih.2 kr hkr; exact ⟨j, by simp [hj], hid⟩
    | keep r =>
      simp only
      refine ⟨?_, ?_⟩
      · intro x hx
        obtain ⟨j, hj, hid⟩ := ih.1 x hx; exact ⟨j, by simp [hj], hid⟩
      · intro kr hkr
        simp only [List.mem_cons] at hkr
        rcases hkr with rfl | hkr
        · exact ⟨i, by simp, rfl⟩
        · obtain ⟨j, hj, hid⟩ := ih.2 kr hkr; exact ⟨j, by simp [hj], hid⟩

theorem lookup_none_of_not_key (ks : List (String × NormRes)) (id : String) (h : ∀ kr ∈ ks, kr.1 ≠ id) : List.lookup id ks = none := by
  induction ks with
  | nil => rfl
  | cons kr rest ih =>
    obtain ⟨k, r⟩ := kr
    have hk : k ≠ id := h (k, r) (by simp)
    have : (id == k) = false := by simpa using fun e => hk e.symm
    simp only [List.lookup, this]
    exact ih (fun kr' hkr' => h kr' (by simp [hkr']))

mutual
/-- when all Fresh nodes sit `r` levels down and nothing is deeper, Fresh nodes have no children -/
theorem Tree.freshLeaf_of_levels (r : Nat) (t : Tree) (hf : ∀ n, ∀ i ∈ t.atLevel n, i.st = .fresh → n = r) (htop : t.atLevel (r + 1) = []) :
    t.freshLeaf = true := by
  match t, r with
  | .node i k, 0 =>
    have hk : k = .nil := by simp only [Tree.atLevel] at htop; exact forest_atLevel_zero_nil k htop
    subst hk
    simp [Tree.freshLeaf, Forest.freshLeaf]
  | .node i k, r + 1 =>
    simp only [Tree.freshLeaf, Bool.and_eq_true, Bool.or_eq_true, bne_iff_ne, ne_eq]
    refine ⟨?_, Forest.freshLeaf_of_levels r k (fun n j hj hfj => by
      have := hf (n + 1) j (by simpa [Tree.atLevel] using hj) hfj; omega) (by simpa [Tree.atLevel] using htop)⟩
    left
    intro hfi
    have := hf 0 i (by simp [Tree.atLevel]) hfi
    omega
theorem Forest.freshLeaf_of_levels (r : Nat) (f : Forest) (hf : ∀ n, ∀ i ∈ f.atLevel n, i.st = .fresh → n = r) (htop : f.atLevel (r + 1) = []) :
    f.freshLeaf = true := by
  match f with
  | .nil => rfl
  | .cons t f =>
    simp only [Forest.atLevel, List.append_eq_nil_iff] at htop
    simp only [Forest.freshLeaf, Bool.and_eq_true]
    exact ⟨Tree.freshLeaf_of_levels r t (fun n i hi => hf n i (by simp [Forest.atLevel, hi])) htop.1,
      Forest.freshLeaf_of_levels r f (fun n i hi => hf n i (by simp [Forest.atLevel, hi])) htop.2⟩
end

/-- in a `Mid` tree whose level-`d` nodes are the only possibly-Fresh ones, Fresh nodes are leaves -/
theorem mid_freshLeaf {R d : Nat} {P : Status → Prop} {t : Tree} (h : Mid R d P t) : t.freshLeaf = true :=
  Tree.freshLeaf_of_levels d t (fun n i hi hf => h.pend n i hi (by rw [hf]; rfl)) h.top


/-! ### the invariant and what each stage does to it -/

/-- the non-seed nodes of a tree, in traversal order -/
def NS (t : Tree) : List Info := t.kids.flatten

/-- processed (no longer Fresh) non-seed nodes with the same URL are the same node -/
def PU (t : Tree) : Prop := ∀ a ∈ NS t, ∀ b ∈ NS t, a.st ≠ .fresh → b.st ≠ .fresh → a.url = b.url → a.id = b.id

/-- every processed non-seed node of `t` is still in `t'`, processed, with its id and URL -/
def Keeps (t t' : Tree) : Prop := ∀ m ∈ NS t, m.st ≠ .fresh → ∃ m' ∈ NS t', m'.id = m.id ∧ m'.url = m.url ∧ m'.st ≠ .fresh

theorem Keeps.trans {a b c : Tree} (h1 : Keeps a b) (h2 : Keeps b c) : Keeps a c := by
  intro m hm hf
  obtain ⟨m1, hm1, e1, e2, e3⟩ := h1 m hm hf
  obtain ⟨m2, hm2, f1, f2, f3⟩ := h2 m1 hm1 e3
  exact ⟨m2, hm2, f1.trans e1, f2.trans e2, f3⟩

/-- `t'` is `t` with some nodes relabelled: same nodes in the same order, ids and URLs kept, processed stays processed -/
def Relabel (t t' : Tree) : Prop :=
  t'.info.id = t.info.id ∧
  ∃ g : Info → Info, NS t' = (NS t).map g ∧ ∀ i, (g i).id = i.id ∧ (g i).url = i.url ∧ (i.st ≠ .fresh → (g i).st ≠ .fresh)

theorem Relabel.refl (t : Tree) : Relabel t t := ⟨rfl, id, by simp, fun i => ⟨rfl, rfl, id⟩⟩

theorem Relabel.trans {a b c : Tree} (h1 : Relabel a b) (h2 : Relabel b c) : Relabel a c := by
  obtain ⟨r1, g1, e1, p1⟩ := h1
  obtain ⟨r2, g2, e2, p2⟩ := h2
  refine ⟨r2.trans r1, g2 ∘ g1, by rw [e2, e1, List.map_map], fun i => ?_⟩
  obtain ⟨a1, a2, a3⟩ := p1 i
  obtain ⟨b1, b2, b3⟩ := p2 (g1 i)
  exact ⟨b1.trans a1, b2.trans a2, fun h => b3 (a3 h)⟩

theorem Relabel.keeps {t t' : Tree} (h : Relabel t t') : Keeps t t' := by
  obtain ⟨_, g, e, p⟩ := h
  intro m hm hf
  exact ⟨g m, by rw [e]; exact List.mem_map.2 ⟨m, hm, rfl⟩, (p m).1, (p m).2.1, (p m).2.2 hf⟩

theorem Relabel.urls {t t' : Tree} (h : Relabel t t') : (NS t').map (·.url) = (NS t).map (·.url) := by
  obtain ⟨_, g, e, p⟩ := h
  rw [e, List.map_map]
  apply List.map_congr_left
  intro i _
  exact (p i).2.1

theorem Relabel.ids {t t' : Tree} (h : Relabel t t') : (NS t').map (·.id) = (NS t).map (·.id) := by
  obtain ⟨_, g, e, p⟩ := h
  rw [e, List.map_map]
  apply List.map_congr_left
  intro i _
  exact (p i).1

theorem idl_eq (t : Tree) : t.idl = t.info.id :: (NS t).map (·.id) := by
  match t with | .node i k => simp [Tree.idl_node, NS, Tree.kids, Tree.info, Forest.idl]

theorem Relabel.idl {t t' : Tree} (h : Relabel t t') : t'.idl = t.idl := by
  rw [idl_eq, idl_eq, h.ids, h.1]

theorem relabel_setStatuses (l : List String) (s : Status) (rq : Bool) (hs : s ≠ .fresh) (t : Tree) : Relabel t (t.setStatuses l s rq) := by
  match t with
  | .node i k =>
    refine ⟨by simp only [Tree.setStatuses, Tree.info]; split <;> rfl, stamp l s rq, ?_, fun j => ?_⟩
    · simp only [NS, Tree.setStatuses, Tree.kids, Forest.flatten_setStatuses]
    · unfold stamp
      split
      · exact ⟨rfl, rfl, fun _ => hs⟩
      · exact ⟨rfl, rfl, id⟩

theorem relabel_setRoot (t : Tree) (s : Status) : Relabel t (setRoot t s) := by
  match t with
  | .node i k => exact ⟨rfl, id, by simp [NS, setRoot, Tree.kids], fun j => ⟨rfl, rfl, id⟩⟩

theorem finalStep_relabel (t2 : Tree) (sr : Seen × List String) (d : Nat) :
    let c := finalStep t2 sr d
    Relabel t2 (if c.2.2.1.isEmpty then c.1 else c.1.setStatuses c.2.2.1 .preProcessed true) := by
  have h3 := relabel_setStatuses sr.2 .seen false (by simp) t2
  unfold finalStep
  simp only
  split
  · simp only [List.isEmpty_nil, if_true]
    exact h3.trans (relabel_setRoot _ _)
  · split
    · exact h3
    · exact h3.trans (relabel_setStatuses _ .preProcessed true (by simp) _)

theorem preTail_relabel (S : SF) (hg : (S.preSeencheckGuard == "always") = false) (cfg : Cfg) (seen : Seen) (t2 : Tree) (d : Nat) :
    let c := preTail S cfg seen t2 d
    Relabel t2 (if c.2.2.1.isEmpty then c.1 else c.1.setStatuses c.2.2.1 .preProcessed true) := by
  unfold preTail
  simp only
  split
  · simp only [List.isEmpty_nil, if_true]
    exact relabel_setRoot _ _
  · split
    · exact finalStep_relabel _ _ _
    · simp only [hg, Bool.false_or]
      split
      · rename_i hcr
        simp at hcr
      · exact finalStep_relabel _ _ _


/-- the ids on level `d + 1` of `t'` are among those of `t` -/
def LevelSub (d : Nat) (t t' : Tree) : Prop := ∀ x ∈ ids (t'.atLevel (d + 1)), x ∈ ids (t.atLevel (d + 1))

theorem LevelSub.refl (d : Nat) (t : Tree) : LevelSub d t t := fun _ h => h
theorem LevelSub.trans {d : Nat} {a b c : Tree} (h1 : LevelSub d a b) (h2 : LevelSub d b c) : LevelSub d a c := fun x hx => h1 x (h2 x hx)

theorem levelSub_setStatuses (d : Nat) (l : List String) (s : Status) (rq : Bool) (t : Tree) : LevelSub d t (t.setStatuses l s rq) := by
  intro x hx; rw [Tree.atLevel_setStatuses_ids] at hx; exact hx

theorem levelSub_setRoot (d : Nat) (t : Tree) (s : Status) : LevelSub d t (setRoot t s) := by
  match t with
  | .node i k => intro x hx; simpa [setRoot, Tree.atLevel] using hx

theorem finalStep_levelSub (t2 : Tree) (sr : Seen × List String) (d e : Nat) :
    let c := finalStep t2 sr d
    LevelSub e t2 (if c.2.2.1.isEmpty then c.1 else c.1.setStatuses c.2.2.1 .preProcessed true) := by
  have h3 := levelSub_setStatuses e sr.2 .seen false t2
  unfold finalStep
  simp only
  split
  · simp only [List.isEmpty_nil, if_true]
    exact h3.trans (levelSub_setRoot e _ _)
  · split
    · exact h3
    · exact h3.trans (levelSub_setStatuses e _ .preProcessed true _)

theorem preTail_levelSub (S : SF) (hg : (S.preSeencheckGuard == "always") = false) (cfg : Cfg) (seen : Seen) (t2 : Tree) (d e : Nat) :
    let c := preTail S cfg seen t2 d
    LevelSub e t2 (if c.2.2.1.isEmpty then c.1 else c.1.setStatuses c.2.2.1 .preProcessed true) := by
  unfold preTail
  simp only
  split
  · simp only [List.isEmpty_nil, if_true]
    exact levelSub_setRoot e _ _
  · split
    · exact finalStep_levelSub _ _ _ _
    · simp only [hg, Bool.false_or]
      split
      · rename_i hcr
        simp at hcr
      · exact finalStep_levelSub _ _ _ _

theorem NS_sub_flatten (t : Tree) : ∀ i ∈ NS t, i ∈ t.flatten := by
  match t with | .node i k => intro j hj; simp [NS, Tree.kids] at hj; simp [Tree.flatten, hj]

theorem atLevel_succ_sub_NS (t : Tree) (n : Nat) : ∀ i ∈ t.atLevel (n + 1), i ∈ NS t := by
  match t with
  | .node i k => intro j hj; simp only [Tree.atLevel] at hj; simpa [NS, Tree.kids] using Forest.atLevel_sub_flatten k n j hj

theorem NS_ids_nodup (t : Tree) (h : t.idl.Nodup) : ((NS t).map (·.id)).Nodup := by
  match t with
  | .node i k => rw [Tree.idl_node, List.nodup_cons] at h; simpa [NS, Tree.kids, Forest.idl] using h.2

theorem root_id_not_in_NS (t : Tree) (h : t.idl.Nodup) : ∀ j ∈ NS t, j.id ≠ t.info.id := by
  match t with
  | .node i k =>
    rw [Tree.idl_node, List.nodup_cons] at h
    intro j hj he
    apply h.1
    simp only [NS, Tree.kids] at hj
    rw [Tree.info] at he
    rw [← he]
    exact List.mem_map.2 ⟨j, hj, rfl⟩

/-- a processed node is none of the (Fresh) nodes of the working level -/
theorem processed_not_on_level {R d : Nat} {t : Tree} (h : Start R d t) (m : Info) (hm : m ∈ t.flatten) (hf : m.st ≠ .fresh) :
    ∀ i ∈ t.atLevel d, i.id ≠ m.id := by
  intro i hi he
  have : i = m := eq_of_id_eq t.flatten h.ids i m (Tree.atLevel_sub_flatten t d i hi) hm he
  subst this
  exact hf (h.fresh i hi)


/-! ### preprocess -/

/-- normalising and filtering the working level leaves every processed node in place (only Fresh nodes of the working level
are touched) -/
theorem keeps_setNorm_prune {R d : Nat} {t : Tree} (h : Start R d t) (ks : List (String × NormRes)) (rm : List String)
    (hks : ∀ kr ∈ ks, ∃ i ∈ t.atLevel d, i.id = kr.1) (hrm : ∀ x ∈ rm, ∃ i ∈ t.atLevel d, i.id = x) :
    (∀ m ∈ NS t, m.st ≠ .fresh → m ∈ NS ((t.setNorm ks).prune rm)) ∧
    (∀ j ∈ NS ((t.setNorm ks).prune rm), j.st ≠ .fresh → j ∈ NS t) := by
  have hm0 : Mid R d (· = .fresh) (t.setNorm ks) := mid_setNorm ks h.toMid
  match t, h, hks, hrm, hm0 with
  | .node i k, h, hks, hrm, hm0 =>
    have hfix : ∀ m ∈ k.flatten, m.st ≠ .fresh → normInfo ks m = m ∧ rm.contains m.id = false := by
      intro m hm hf
      have hnl := processed_not_on_level h m (by simp [Tree.flatten, hm]) hf
      refine ⟨?_, ?_⟩
      · unfold normInfo
        rw [lookup_none_of_not_key ks m.id (fun kr hkr he => by
          obtain ⟨j, hj, hid⟩ := hks kr hkr
          exact hnl j hj (hid.trans he))]
      · cases hc : rm.contains m.id with
        | false => rfl
        | true =>
          exfalso
          obtain ⟨j, hj, hid⟩ := hrm m.id (by simpa using hc)
          exact hnl j hj hid
    have hfl : (k.setNorm ks).freshLeaf = true := by
      have := mid_freshLeaf hm0
      simp only [Tree.setNorm, Tree.freshLeaf, Bool.and_eq_true] at this
      exact this.2
    have hleaf : ∀ j ∈ (k.setNorm ks).flatten, rm.contains j.id = true → j.st = .fresh := by
      intro j hj hc
      rw [Forest.flatten_setNorm] at hj
      obtain ⟨j0, hj0, rfl⟩ := List.mem_map.1 hj
      have hst : (normInfo ks j0).st = j0.st := by unfold normInfo; split <;> rfl
      rw [hst]
      cases hs : decide (j0.st = .fresh) with
      | true => simpa using hs
      | false =>
        exfalso
        have hne : j0.st ≠ .fresh := by simpa using hs
        have := (hfix j0 hj0 hne).2
        rw [normInfo_id] at hc
        rw [this] at hc; cases hc
    have hflat := Forest.flatten_prune_eq rm (k.setNorm ks) hleaf hfl
    simp only [NS, Tree.setNorm, Tree.prune, Tree.kids]
    refine ⟨?_, ?_⟩
    · intro m hm hf
      rw [hflat, Forest.flatten_setNorm]
      simp only [List.mem_filter, List.mem_map, keepP, Bool.not_eq_true']
      exact ⟨⟨m, hm, (hfix m hm hf).1⟩, (hfix m hm hf).2⟩
    · intro j hj hf
      rw [hflat, Forest.flatten_setNorm] at hj
      simp only [List.mem_filter, List.mem_map] at hj
      obtain ⟨⟨j0, hj0, rfl⟩, _⟩ := hj
      have hst : (normInfo ks j0).st = j0.st := by unfold normInfo; split <;> rfl
      rw [hst] at hf
      rw [(hfix j0 hj0 hf).1]
      exact hj0

/-- de-duplication keeps every processed node, and leaves pairwise distinct URLs below the seed -/
theorem keeps_dedupe (F : IF) (hF : okSets F = true) (hD : okDedupe F = true) {R d : Nat} {t : Tree} (h : Mid R d (· = .fresh) t) (hpu : PU t) :
    Keeps t (dedupe F t) ∧ ((NS (dedupe F t)).map (·.url)).Nodup := by
  match t, h, hpu with
  | .node i k, h, hpu =>
    have hid : (k.flatten.map (·.id)).Nodup := NS_ids_nodup _ h.ids
    have hu : ProcessedUnique k.flatten := by
      intro a ha b hb hfa hfb hab
      exact eq_of_id_eq k.flatten hid a b ha hb (hpu a ha b hb hfa hfb hab)
    have hfresh := fold_removed_fresh F hD [] k.flatten { seen := [], removed := [] } (by simpa using hid) dinv_init
      (by simpa using hu) (by simp)
    simp only [List.nil_append] at hfresh
    have hleaf : ∀ j ∈ k.flatten, (dedupeRemoved F k.flatten).contains j.id = true → j.st = .fresh := by
      intro j hj hc
      simp only [List.contains_eq_mem, decide_eq_true_eq] at hc
      obtain ⟨m', hm', hid', hst'⟩ := hfresh _ hc
      have : m' = j := eq_of_id_eq _ hid m' j hm' hj hid'
      rw [← this]; exact hst'
    have hfl : k.freshLeaf = true := by
      have := mid_freshLeaf h
      simp only [Tree.freshLeaf, Bool.and_eq_true] at this
      exact this.2
    have hprune := Forest.flatten_prune_eq (dedupeRemoved F k.flatten) k hleaf hfl
    have hkids : (dedupe F (.node i k)).kids = (k.prune (dedupeRemoved F k.flatten)).mark F := by
      simp only [dedupe, Tree.prune]
      exact Tree.kids_mark F i _
    refine ⟨?_, ?_⟩
    · intro m hm hf
      simp only [NS, Tree.kids] at hm
      have hkept : m ∈ (k.prune (dedupeRemoved F k.flatten)).flatten := by
        rw [hprune]
        simp only [List.mem_filter, keepP, Bool.not_eq_true']
        refine ⟨hm, ?_⟩
        cases hc : (dedupeRemoved F k.flatten).contains m.id with
        | false => rfl
        | true => exact absurd (hleaf m hm hc) hf
      obtain ⟨m', hm', hk'⟩ := mem_of_map_key_eq (Forest.flatten_mark_key F hF _) m hkept
      simp only [key, Prod.mk.injEq] at hk'
      refine ⟨m', by simpa [NS, hkids] using hm', hk'.1, hk'.2.1, ?_⟩
      intro hfm
      have : (m.st == Status.fresh) = true := by rw [← hk'.2.2]; simp [hfm]
      exact hf (by simpa using this)
    · simpa [NS] using dedupe_nodup F i k hid

/-- **preprocess**: processed nodes stay (with id and URL), the non-seed URLs of the result are pairwise distinct, and the ids of
the working level come from the working level -/
theorem pre_fetch (S : SF) (I : IF) (hI : okSets I = true) (hD : okDedupe I = true) (hg : (S.preSeencheckGuard == "always") = false) (cfg : Cfg)
    (norm : String → Option NormRes) (seen : Seen) {R d' : Nat} {t : Tree} (h : Start R (d' + 1) t) (hw : t.wp (d' + 1) = true) (hpu : PU t) :
    Keeps t (preprocess S I cfg norm seen t).1 ∧ ((NS (preprocess S I cfg norm seen t).1).map (·.url)).Nodup ∧
      LevelSub d' t (preprocess S I cfg norm seen t).1 ∧ (preprocess S I cfg norm seen t).1.idl.Nodup := by
  have hm : MidW R (d' + 1) (· = .fresh) t := ⟨h.toMid, hw⟩
  have hsc := scan_ids cfg norm t (t.atLevel (d' + 1))
  have h1 := midW_setNorm_prune (scan cfg norm t (t.atLevel (d' + 1))).2.1 (scan cfg norm t (t.atLevel (d' + 1))).1 hm
  have hk1 := keeps_setNorm_prune h (scan cfg norm t (t.atLevel (d' + 1))).2.1 (scan cfg norm t (t.atLevel (d' + 1))).1
    (fun kr hkr => hsc.2 kr hkr) (fun x hx => hsc.1 x hx)
  have hpu1 : PU ((t.setNorm (scan cfg norm t (t.atLevel (d' + 1))).2.1).prune (scan cfg norm t (t.atLevel (d' + 1))).1) := by
    intro a ha b hb hfa hfb hab
    exact hpu a (hk1.2 a ha hfa) b (hk1.2 b hb hfb) hfa hfb hab
  have hk2 := keeps_dedupe I hI hD h1.1 hpu1
  have hls1 : LevelSub d' t ((t.setNorm (scan cfg norm t (t.atLevel (d' + 1))).2.1).prune (scan cfg norm t (t.atLevel (d' + 1))).1) := by
    intro x hx
    simp only [ids, List.mem_map] at hx ⊢
    obtain ⟨j, hj, rfl⟩ := hx
    have hj' := Tree.atLevel_prune_all _ _ _ j hj
    rw [Tree.atLevel_setNorm] at hj'
    obtain ⟨j0, hj0, rfl⟩ := List.mem_map.1 hj'
    exact ⟨j0, hj0, (normInfo_id _ j0).symm⟩
  have hls2 : LevelSub d' ((t.setNorm (scan cfg norm t (t.atLevel (d' + 1))).2.1).prune (scan cfg norm t (t.atLevel (d' + 1))).1)
      (dedupe I ((t.setNorm (scan cfg norm t (t.atLevel (d' + 1))).2.1).prune (scan cfg norm t (t.atLevel (d' + 1))).1)) :=
    fun x hx => dedupe_level_ids I _ d' x hx
  have hf : (scan cfg norm t (t.atLevel (d' + 1))).2.2 = none :=
    scan_flag_none cfg norm t _ (fun i hi => ⟨h.fresh i hi, Tree.parentStatus_par t h.ids d' hw i hi⟩)
  have hrel := preTail_relabel S hg cfg seen
    (dedupe I ((t.setNorm (scan cfg norm t (t.atLevel (d' + 1))).2.1).prune (scan cfg norm t (t.atLevel (d' + 1))).1)) (d' + 1)
  have hlev := preTail_levelSub S hg cfg seen
    (dedupe I ((t.setNorm (scan cfg norm t (t.atLevel (d' + 1))).2.1).prune (scan cfg norm t (t.atLevel (d' + 1))).1)) (d' + 1) d'
  unfold preprocess preCore
  simp only [h.depth, hf]
  simp only at hrel hlev
  refine ⟨?_, ?_, ?_, ?_⟩
  · have hka : Keeps t ((t.setNorm (scan cfg norm t (t.atLevel (d' + 1))).2.1).prune (scan cfg norm t (t.atLevel (d' + 1))).1) := by
      intro m hm' hfm
      exact ⟨m, hk1.1 m hm' hfm, rfl, rfl, hfm⟩
    exact (hka.trans hk2.1).trans hrel.keeps
  · rw [hrel.urls]; exact hk2.2
  · exact (hls1.trans hls2).trans hlev
  · rw [hrel.idl]; exact (midW_dedupe I hI h1).1.ids


theorem key_fields {a b : Info} (h : key a = key b) : a.id = b.id ∧ a.url = b.url ∧ (a.st = .fresh ↔ b.st = .fresh) := by
  simp only [key, Prod.mk.injEq] at h
  refine ⟨h.1, h.2.1, ?_⟩
  constructor
  · intro ha; have : (b.st == Status.fresh) = true := by rw [← h.2.2]; simp [ha]
    simpa using this
  · intro hb; have : (a.st == Status.fresh) = true := by rw [h.2.2]; simp [hb]
    simpa using this

/-- what `preprocess` returns, structurally: a relabelling of the de-duplicated, filtered tree — or of the filtered tree when the
seed itself was rejected -/
theorem pre_structure (S : SF) (I : IF) (hg : (S.preSeencheckGuard == "always") = false) (cfg : Cfg) (norm : String → Option NormRes)
    (seen : Seen) (t : Tree) (hfresh : ∀ i ∈ t.atLevel t.maxDepth, i.st = .fresh) :
    Relabel (dedupe I ((t.setNorm (scan cfg norm t (t.atLevel t.maxDepth)).2.1).prune (scan cfg norm t (t.atLevel t.maxDepth)).1))
        (preprocess S I cfg norm seen t).1 ∨
    Relabel ((t.setNorm (scan cfg norm t (t.atLevel t.maxDepth)).2.1).prune (scan cfg norm t (t.atLevel t.maxDepth)).1)
        (preprocess S I cfg norm seen t).1 := by
  unfold preprocess preCore
  simp only
  rcases scan_flag cfg norm t (t.atLevel t.maxDepth) hfresh with hf | hf | hf
  · simp only [hf]; exact Or.inl (preTail_relabel S hg cfg seen _ _)
  · simp only [hf, List.isEmpty_nil, if_true]; exact Or.inr (relabel_setRoot _ _)
  · simp only [hf, List.isEmpty_nil, if_true]; exact Or.inr (relabel_setRoot _ _)

theorem NS_prune_setNorm_ids (ks : List (String × NormRes)) (rm : List String) (t : Tree) :
    ∀ x ∈ NS ((t.setNorm ks).prune rm), ∃ y ∈ NS t, y.id = x.id := by
  match t with
  | .node i k =>
    intro x hx
    simp only [NS, Tree.setNorm, Tree.prune, Tree.kids] at hx ⊢
    have h1 := (Forest.flatten_prune rm (k.setNorm ks)).subset hx
    simp only [List.mem_filter] at h1
    rw [Forest.flatten_setNorm] at h1
    obtain ⟨y, hy, rfl⟩ := List.mem_map.1 h1.1
    exact ⟨y, hy, (normInfo_id ks y).symm⟩

theorem NS_dedupe_ids (F : IF) (hF : okSets F = true) (t : Tree) : ∀ x ∈ NS (dedupe F t), ∃ y ∈ NS t, y.id = x.id := by
  match t with
  | .node i k =>
    intro x hx
    have hkids : (dedupe F (.node i k)).kids = (k.prune (dedupeRemoved F k.flatten)).mark F := by
      simp only [dedupe, Tree.prune]
      exact Tree.kids_mark F i _
    simp only [NS, hkids] at hx
    obtain ⟨y, hy, hk⟩ := mem_of_map_key_eq (Forest.flatten_mark_key F hF _).symm x hx
    have h1 := (Forest.flatten_prune _ k).subset hy
    simp only [List.mem_filter] at h1
    exact ⟨y, by simpa [NS, Tree.kids] using h1.1, (key_fields hk).1⟩

/-- `preprocess` adds no node -/
theorem pre_adds_no_nodes (S : SF) (I : IF) (hI : okSets I = true) (hg : (S.preSeencheckGuard == "always") = false) (cfg : Cfg)
    (norm : String → Option NormRes) (seen : Seen) {t : Tree} (hfresh : ∀ i ∈ t.atLevel t.maxDepth, i.st = .fresh) :
    ∀ x ∈ NS (preprocess S I cfg norm seen t).1, ∃ y ∈ NS t, y.id = x.id := by
  intro x hx
  have hid : x.id ∈ (NS (preprocess S I cfg norm seen t).1).map (·.id) := List.mem_map.2 ⟨x, hx, rfl⟩
  rcases pre_structure S I hg cfg norm seen t hfresh with hr | hr
  · rw [hr.ids] at hid
    obtain ⟨x2, hx2, e2⟩ := List.mem_map.1 hid
    obtain ⟨x1, hx1, e1⟩ := NS_dedupe_ids I hI _ x2 hx2
    obtain ⟨y, hy, e0⟩ := NS_prune_setNorm_ids _ _ t x1 hx1
    exact ⟨y, hy, e0.trans (e1.trans e2)⟩
  · rw [hr.ids] at hid
    obtain ⟨x1, hx1, e1⟩ := List.mem_map.1 hid
    obtain ⟨y, hy, e0⟩ := NS_prune_setNorm_ids _ _ t x1 hx1
    exact ⟨y, hy, e0.trans e1⟩

/-! ### archive, postprocess, finisher -/

theorem flatten_eq (t : Tree) : t.flatten = t.info :: NS t := by
  match t with | .node i k => rfl

theorem archive_NS_key (srv : String → Option Outcome) (t : Tree) : (NS (archive srv t)).map key = (NS t).map key := by
  have h := Tree.flatten_archive_key srv t.maxDepth 0 t
  rw [flatten_eq, flatten_eq, List.map_cons, List.map_cons] at h
  exact (List.cons.inj h).2

theorem post_root_id (S : SF) (cfg : Cfg) (ex : String → Extract) (d lvl : Nat) (pdnr : Int) (isSeed : Bool) (t : Tree) :
    (t.post S cfg ex d lvl pdnr isSeed).1.info.id = t.info.id := by
  match t with
  | .node i k =>
    unfold Tree.post
    split
    · split
      · show ((match postAct S cfg ex i (nodeDnr isSeed i.st pdnr) with
            | PostAct.complete => _ | PostAct.redirect c => _ | PostAct.extract kids outs => _ : Tree × List Outlink).1).info.id = _
        split <;> rfl
      · rfl
    · show (match Forest.post S cfg ex d (lvl + 1) (nodeDnr isSeed i.st pdnr) k with
        | (k', outs) => ((Tree.node { i with body := false } k', outs) : Tree × List Outlink)).1.info.id = _
      cases Forest.post S cfg ex d (lvl + 1) (nodeDnr isSeed i.st pdnr) k with
      | mk k' outs => rfl

/-- postprocess on the non-seed nodes: every old one is still there with the same key; every processed one is an old one -/
theorem post_NS (S : SF) (hS : okPost S = true) (cfg : Cfg) (ex : String → Extract) (a : Tree) (ha : a.idl.Nodup)
    (hq : (postprocess S cfg ex a).1.idl.Nodup) :
    (∀ m ∈ NS a, ∃ j ∈ NS (postprocess S cfg ex a).1, key j = key m) ∧
    (∀ j ∈ NS (postprocess S cfg ex a).1, j.st ≠ .fresh → ∃ m ∈ NS a, key m = key j) := by
  have hpn := Tree.flatten_post S hS cfg ex a.maxDepth 0 0 true a
  have hrid : (postprocess S cfg ex a).1.info.id = a.info.id := post_root_id S cfg ex _ 0 0 true a
  refine ⟨?_, ?_⟩
  · intro m hm
    obtain ⟨j, hj, hk⟩ := hpn.1 m (NS_sub_flatten a m hm)
    have hjm : j.id = m.id := by simp only [key, Prod.mk.injEq] at hk; exact hk.1
    have hj : j ∈ (postprocess S cfg ex a).1.flatten := hj
    rw [flatten_eq] at hj
    simp only [List.mem_cons] at hj
    rcases hj with rfl | hj
    · exact absurd (hjm.symm.trans hrid) (root_id_not_in_NS a ha m hm)
    · exact ⟨j, hj, hk⟩
  · intro j hj hf
    have hjf : j ∈ (Tree.post S cfg ex a.maxDepth 0 0 true a).1.flatten := NS_sub_flatten (postprocess S cfg ex a).1 j hj
    rcases hpn.2 j hjf with ⟨m, hm, hk⟩ | hfresh
    · have hmj : m.id = j.id := by simp only [key, Prod.mk.injEq] at hk; exact hk.1
      rw [flatten_eq] at hm
      simp only [List.mem_cons] at hm
      rcases hm with rfl | hm
      · exact absurd (hmj.symm.trans hrid.symm) (root_id_not_in_NS _ hq j hj)
      · exact ⟨m, hm, hk⟩
    · exact absurd hfresh hf

theorem fin_NS_key (I : IF) (hI : okSets I = true) (q : Tree) : (NS (finisher I q).1).map key = (NS q).map key := by
  have hmark : (NS (q.mark I)).map key = (NS q).map key := by
    have h := Tree.flatten_mark_key I hI q
    rw [flatten_eq, flatten_eq, List.map_cons, List.map_cons] at h
    exact (List.cons.inj h).2
  by_cases hf : (q.st == Status.fresh) = true
  · simp [finisher, hf]
  · by_cases hw : hasWork I q.st = true
    · simp only [finisher, hf, Bool.false_eq_true, if_false, completeAndCheck, hw, Bool.not_true]
      exact hmark
    · have hw' : hasWork I q.st = false := by simpa using hw
      simp [finisher, hf, completeAndCheck, hw']

/-- from the tree `preprocess` hands on to the tree the finisher hands back: processed nodes persist, and no processed node
appears that was not there -/
theorem rest_of_pass (S : SF) (hS : okPost S = true) (I : IF) (hI : okSets I = true) (cfg : Cfg) (o : Oracle) (p1 : Tree) (hp : p1.idl.Nodup)
    (hq : (postprocess S cfg o.ex (archive o.srv p1)).1.idl.Nodup) :
    let T := (finisher I (postprocess S cfg o.ex (archive o.srv p1)).1).1
    (∀ m ∈ NS p1, ∃ j ∈ NS T, key j = key m) ∧ (∀ j ∈ NS T, j.st ≠ .fresh → ∃ m ∈ NS p1, key m = key j) := by
  have ha : (archive o.srv p1).idl.Nodup := by unfold archive; rw [Tree.idl_archive]; exact hp
  obtain ⟨hp1, hp2⟩ := post_NS S hS cfg o.ex (archive o.srv p1) ha hq
  have hak := archive_NS_key o.srv p1
  have hfk := fin_NS_key I hI (postprocess S cfg o.ex (archive o.srv p1)).1
  refine ⟨?_, ?_⟩
  · intro m hm
    obtain ⟨m1, hm1, hk1⟩ := mem_of_map_key_eq hak m hm
    obtain ⟨m2, hm2, hk2⟩ := hp1 m1 hm1
    obtain ⟨m3, hm3, hk3⟩ := mem_of_map_key_eq hfk m2 hm2
    exact ⟨m3, hm3, hk3.trans (hk2.trans hk1)⟩
  · intro j hj hf
    obtain ⟨j2, hj2, hk2⟩ := mem_of_map_key_eq hfk.symm j hj
    have hf2 : j2.st ≠ .fresh := fun h => hf ((key_fields hk2).2.2.1 h)
    obtain ⟨j1, hj1, hk1⟩ := hp2 j2 hj2 hf2
    obtain ⟨j0, hj0, hk0⟩ := mem_of_map_key_eq hak.symm j1 hj1
    exact ⟨j0, hj0, hk0.trans (hk1.trans hk2)⟩

/-- the requests of one pass: the non-seed nodes `preprocess` leaves PreProcessed on the working level, as (id, canonical URL) -/
def passReqs (S : SF) (I : IF) (cfg : Cfg) (o : Oracle) (seen : Seen) (t : Tree) : List (String × String) :=
  if t.maxDepth = 0 then []
  else (((preprocess S I cfg o.norm seen t).1.atLevel t.maxDepth).filter (fun n => n.st == .preProcessed)).map (fun n => (n.id, n.url))

/-- **One pass, for the fetches.** With processed nodes carrying pairwise distinct URLs at the start: they all persist (id and URL)
to the end of the pass, the same holds at the end, and every node that gets a request in this pass is new among the processed
nodes and is itself among the processed nodes at the end. -/
theorem pass_fetch (S : SF) (hS : okPost S = true) (hg : (S.preSeencheckGuard == "always") = false) (I : IF) (hI : okSets I = true)
    (hD : okDedupe I = true) (cfg : Cfg) (o : Oracle) (seen : Seen) {R d : Nat} {t : Tree} (h : Start R d t) (hw : t.wp d = true) (hpu : PU t)
    (hid : passIds S I cfg o seen t = true) :
    let T := (pass S I cfg o seen t).tree
    Keeps t T ∧ PU T ∧
    (∀ r ∈ passReqs S I cfg o seen t, (∃ n' ∈ NS T, n'.id = r.1 ∧ n'.url = r.2 ∧ n'.st ≠ .fresh) ∧ (∀ m ∈ NS t, m.st ≠ .fresh → m.id ≠ r.1)) := by
  have hq := of_decide_eq_true hid
  cases d with
  | zero =>
    -- the seed alone: it has no non-seed node yet, and whatever postprocess adds below it is Fresh
    have hk : t.kids = .nil := by
      match t, h with
      | .node i k, h =>
        have := atLevel_above_nil (.node i k) 1 (by rw [h.depth]; omega)
        simp only [Tree.atLevel] at this
        exact forest_atLevel_zero_nil k this
    have hns : NS t = [] := by simp [NS, hk, Forest.flatten]
    have hp1 : NS (preprocess S I cfg o.norm seen t).1 = [] := by
      cases hl : NS (preprocess S I cfg o.norm seen t).1 with
      | nil => rfl
      | cons x xs =>
        obtain ⟨y, hy, _⟩ := pre_adds_no_nodes S I hI hg cfg o.norm seen (by rw [h.depth]; exact h.fresh) x (by rw [hl]; simp)
        rw [hns] at hy; cases hy
    have hpids : (preprocess S I cfg o.norm seen t).1.idl.Nodup := by
      rw [idl_eq, hp1]; simp
    obtain ⟨_, hr2⟩ := rest_of_pass S hS I hI cfg o _ hpids hq
    have hallfresh : ∀ j ∈ NS (pass S I cfg o seen t).tree, j.st = .fresh := by
      intro j hj
      cases hs : decide (j.st = .fresh) with
      | true => simpa using hs
      | false =>
        exfalso
        obtain ⟨m, hm, _⟩ := hr2 j hj (by simpa using hs)
        rw [hp1] at hm; cases hm
    refine ⟨(by intro m hm; rw [hns] at hm; cases hm), ?_, ?_⟩
    · intro a ha b _ hfa
      exact absurd (hallfresh a ha) hfa
    · intro r hr
      simp [passReqs, h.depth] at hr
  | succ d' =>
    obtain ⟨hk, hnd, hls, hpids⟩ := pre_fetch S I hI hD hg cfg o.norm seen h hw hpu
    obtain ⟨hr1, hr2⟩ := rest_of_pass S hS I hI cfg o _ hpids hq
    have hkeepsRest : Keeps (preprocess S I cfg o.norm seen t).1 (pass S I cfg o seen t).tree := by
      intro m hm hf
      obtain ⟨j, hj, hkj⟩ := hr1 m hm
      obtain ⟨e1, e2, e3⟩ := key_fields hkj
      exact ⟨j, hj, e1, e2, fun hjf => hf (e3.1 hjf)⟩
    refine ⟨hk.trans hkeepsRest, ?_, ?_⟩
    · intro a ha b hb hfa hfb hab
      obtain ⟨a0, ha0, hka⟩ := hr2 a ha hfa
      obtain ⟨b0, hb0, hkb⟩ := hr2 b hb hfb
      obtain ⟨ea1, ea2, _⟩ := key_fields hka
      obtain ⟨eb1, eb2, _⟩ := key_fields hkb
      have : a0 = b0 := eq_of_nodup_map (·.url) _ hnd a0 b0 ha0 hb0 (by rw [ea2, eb2]; exact hab)
      rw [← ea1, ← eb1, this]
    · intro r hr
      simp only [passReqs, h.depth, Nat.succ_ne_zero, if_false, List.mem_map, List.mem_filter] at hr
      obtain ⟨n, ⟨hn, hst⟩, rfl⟩ := hr
      have hnpp : n.st = .preProcessed := by simpa using hst
      have hnNS : n ∈ NS (preprocess S I cfg o.norm seen t).1 := atLevel_succ_sub_NS _ d' n hn
      refine ⟨?_, ?_⟩
      · obtain ⟨j, hj, e1, e2, e3⟩ := hkeepsRest n hnNS (by rw [hnpp]; simp)
        exact ⟨j, hj, e1, e2, e3⟩
      · intro m hm hf he
        have hx : n.id ∈ ids (t.atLevel (d' + 1)) := hls n.id (List.mem_map.2 ⟨n, hn, rfl⟩)
        obtain ⟨f, hfm, hfid⟩ := List.mem_map.1 hx
        exact processed_not_on_level h m (NS_sub_flatten t m hm) hf f hfm (hfid.trans he.symm)


/-! ### the whole life -/

mutual
theorem Tree.atLevel_sublist_flatten (t : Tree) (n : Nat) : (t.atLevel n).Sublist t.flatten := by
  match t, n with
  | .node i k, 0 => simp [Tree.atLevel, Tree.flatten]
  | .node i k, n + 1 =>
    simp only [Tree.atLevel, Tree.flatten]
    exact (Forest.atLevel_sublist_flatten k n).cons i
theorem Forest.atLevel_sublist_flatten (f : Forest) (n : Nat) : (f.atLevel n).Sublist f.flatten := by
  match f with
  | .nil => simp [Forest.atLevel, Forest.flatten]
  | .cons t f =>
    simp only [Forest.atLevel, Forest.flatten]
    exact (Tree.atLevel_sublist_flatten t n).append (Forest.atLevel_sublist_flatten f n)
end

/-- all requests of a life, pass after pass -/
def lifeReqs (S : SF) (I : IF) (cfg : Cfg) : List Oracle → Seen → Tree → List (String × String)
  | [], _, _ => []
  | o :: os, seen, t =>
    passReqs S I cfg o seen t ++
      (if (pass S I cfg o seen t).act == .feedback then lifeReqs S I cfg os (pass S I cfg o seen t).seen (pass S I cfg o seen t).tree else [])

/-- requests recorded so far, all still present as processed nodes of the current tree -/
def Recorded (acc : List (String × String)) (t : Tree) : Prop :=
  acc.Nodup ∧ ∀ p ∈ acc, ∃ m ∈ NS t, m.st ≠ .fresh ∧ m.id = p.1 ∧ m.url = p.2

theorem recorded_urls_nodup {acc : List (String × String)} {t : Tree} (h : Recorded acc t) (hpu : PU t) : (acc.map Prod.snd).Nodup := by
  apply nodup_map_on _ _ h.1
  intro p hp q hq hpq
  obtain ⟨m, hm, hmf, hm1, hm2⟩ := h.2 p hp
  obtain ⟨n, hn, hnf, hn1, hn2⟩ := h.2 q hq
  have : m.id = n.id := hpu m hm n hn hmf hnf (by rw [hm2, hn2]; exact hpq)
  exact Prod.ext (by rw [← hm1, ← hn1, this]) hpq

theorem passReqs_nodup (S : SF) (I : IF) (cfg : Cfg) (o : Oracle) (seen : Seen) (t : Tree) (hp : (preprocess S I cfg o.norm seen t).1.idl.Nodup) :
    (passReqs S I cfg o seen t).Nodup := by
  unfold passReqs
  split
  · exact List.nodup_nil
  · have hsub : (((preprocess S I cfg o.norm seen t).1.atLevel t.maxDepth).filter (fun n => n.st == .preProcessed)).Sublist
        (preprocess S I cfg o.norm seen t).1.flatten := List.filter_sublist.trans (Tree.atLevel_sublist_flatten _ _)
    have hids : ((((preprocess S I cfg o.norm seen t).1.atLevel t.maxDepth).filter (fun n => n.st == .preProcessed)).map (·.id)).Nodup :=
      (hsub.map (fun (x : Info) => x.id)).nodup hp
    have hinj := nodup_of_map (fun (x : Info) => x.id) _ hids
    apply nodup_map_on _ _ hinj
    intro a ha b hb hab
    exact eq_of_nodup_map (fun (x : Info) => x.id) _ hids a b ha hb (by simpa using congrArg Prod.fst hab)

/-- **No URL is fetched by two different non-seed nodes of a seed's tree — across all passes.** -/
theorem life_fetch (S : SF) (hS : okPost S = true) (hg : (S.preSeencheckGuard == "always") = false) (I : IF) (hI : okSets I = true)
    (hD : okDedupe I = true) (cfg : Cfg) (hdc : cfg.domainsCrawl = false) (os : List Oracle) :
    ∀ (seen : Seen) (d : Nat) (t : Tree) (acc : List (String × String)), Start cfg.maxRedirect d t → t.wp d = true → PU t →
      idsOK S I cfg os seen t = true → Recorded acc t → ((acc ++ lifeReqs S I cfg os seen t).map Prod.snd).Nodup := by
  induction os with
  | nil =>
    intro seen d t acc _ _ hpu _ hrec
    simpa [lifeReqs] using recorded_urls_nodup hrec hpu
  | cons o os ih =>
    intro seen d t acc h hw hpu hids hrec
    simp only [idsOK, Bool.and_eq_true, Bool.or_eq_true, Bool.not_eq_true'] at hids
    obtain ⟨hkeeps, hpuT, hreqs⟩ := pass_fetch S hS hg I hI hD cfg o seen h hw hpu hids.1
    have hprog := pass_progressW S hS hg I hI cfg hdc o seen h hw hids.1
    -- ids of the tree preprocess hands on are distinct
    have hpids : (preprocess S I cfg o.norm seen t).1.idl.Nodup := by
      cases d with
      | zero =>
        have hmid := pre_specW S I hI hg cfg o.norm seen h hw
        rcases hmid with hdone | ⟨hm, _⟩
        · -- only the seed: no non-seed node (preprocess adds none)
          have hk : NS t = [] := by
            match t, h with
            | .node i k, h =>
              have := atLevel_above_nil (.node i k) 1 (by rw [h.depth]; omega)
              simp only [Tree.atLevel] at this
              have := forest_atLevel_zero_nil k this
              subst this
              simp [NS, Tree.kids, Forest.flatten]
          have : NS (preprocess S I cfg o.norm seen t).1 = [] := by
            cases hl : NS (preprocess S I cfg o.norm seen t).1 with
            | nil => rfl
            | cons x xs =>
              obtain ⟨y, hy, _⟩ := pre_adds_no_nodes S I hI hg cfg o.norm seen (by rw [h.depth]; exact h.fresh) x (by rw [hl]; simp)
              rw [hk] at hy; cases hy
          rw [idl_eq, this]; simp
        · exact hm.1.ids
      | succ d' => exact (pre_fetch S I hI hD hg cfg o.norm seen h hw hpu).2.2.2
    have hnewnd := passReqs_nodup S I cfg o seen t hpids
    -- the record, extended by this pass's requests, is a record for the tree the finisher hands back
    have hrec' : Recorded (acc ++ passReqs S I cfg o seen t) (pass S I cfg o seen t).tree := by
      refine ⟨?_, ?_⟩
      · rw [List.nodup_append]
        refine ⟨hrec.1, hnewnd, ?_⟩
        intro p hp q hq hpq
        subst hpq
        obtain ⟨m, hm, hmf, hm1, _⟩ := hrec.2 p hp
        exact (hreqs p hq).2 m hm hmf hm1
      · intro p hp
        rcases List.mem_append.1 hp with hp | hp
        · obtain ⟨m, hm, hmf, hm1, hm2⟩ := hrec.2 p hp
          obtain ⟨m', hm', e1, e2, e3⟩ := hkeeps m hm hmf
          exact ⟨m', hm', e3, e1.trans hm1, e2.trans hm2⟩
        · obtain ⟨n', hn', e1, e2, e3⟩ := (hreqs p hp).1
          exact ⟨n', hn', e3, e1, e2⟩
    simp only [lifeReqs]
    rcases hprog with ⟨hf, _⟩ | ⟨hf, hst, hw'⟩
    · simp only [hf]
      have : (FinAct.finish == FinAct.feedback) = false := by decide
      simp only [this, Bool.false_eq_true, if_false, List.append_nil]
      exact recorded_urls_nodup hrec' hpuT
    · simp only [hf, beq_self_eq_true, if_true]
      have hids' : idsOK S I cfg os (pass S I cfg o seen t).seen (pass S I cfg o seen t).tree = true := by
        rcases hids.2 with h' | h'
        · rw [hf] at h'; cases h'
        · exact h'
      have := ih _ (d + 1) _ (acc ++ passReqs S I cfg o seen t) hst hw' hpuT hids' hrec'
      rwa [List.append_assoc] at this

end Zeno.Model.Life
