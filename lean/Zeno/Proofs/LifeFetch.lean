import Zeno.Proofs.LifeCheck
/-!
Within one seed's tree no URL is fetched by two different non-seed nodes — across all passes (C08), for the stage models
composed in `Model/Life.lean`.

Two facts carry it: (i) after `preprocess` the non-seed nodes of the tree have pairwise distinct canonical URLs (de-duplication),
so a node that gets a request shares its URL with no other node; (ii) a node that was processed once (it is no longer Fresh) is
never removed from the tree and keeps its id and URL — de-duplication drops Fresh duplicates only, the filters remove Fresh
nodes only — so it is still there, with that URL, when a later duplicate shows up.
-/
set_option linter.unusedSimpArgs false
set_option linter.unusedVariables false
namespace Zeno.Model.Life
open Zeno Zeno.Model.Item Zeno.Model.Stages

/-- what identifies a node for this argument: its id, its canonical URL, and whether it is still Fresh -/
def key (i : Info) : String × String × Bool := (i.id, i.url, i.st == .fresh)

/-! ### operations as maps on the flattened tree -/

mutual
theorem Tree.flatten_setNorm (ks : List (String × NormRes)) (t : Tree) : (t.setNorm ks).flatten = t.flatten.map (normInfo ks) := by
  match t with
  | .node i k =>
    simp only [Tree.setNorm, Tree.flatten, List.map_cons, Forest.flatten_setNorm ks k]
    congr 1
    unfold normInfo
    cases List.lookup i.id ks <;> rfl
theorem Forest.flatten_setNorm (ks : List (String × NormRes)) (f : Forest) : (f.setNorm ks).flatten = f.flatten.map (normInfo ks) := by
  match f with
  | .nil => rfl
  | .cons t f => simp only [Forest.setNorm, Forest.flatten, List.map_append, Tree.flatten_setNorm ks t, Forest.flatten_setNorm ks f]
end

mutual
theorem Tree.flatten_setStatuses (l : List String) (s : Status) (rq : Bool) (t : Tree) :
    (t.setStatuses l s rq).flatten = t.flatten.map (stamp l s rq) := by
  match t with
  | .node i k => simp only [Tree.setStatuses, Tree.flatten, List.map_cons, Forest.flatten_setStatuses l s rq k, stamp]
theorem Forest.flatten_setStatuses (l : List String) (s : Status) (rq : Bool) (f : Forest) :
    (f.setStatuses l s rq).flatten = f.flatten.map (stamp l s rq) := by
  match f with
  | .nil => rfl
  | .cons t f => simp only [Forest.setStatuses, Forest.flatten, List.map_append, Tree.flatten_setStatuses l s rq t, Forest.flatten_setStatuses l s rq f]
end

mutual
/-- `archive` changes PreProcessed into Archived / Failed: ids, URLs and freshness stay -/
theorem Tree.flatten_archive_key (srv : String → Option Outcome) (d lvl : Nat) (t : Tree) :
    (t.archive srv d lvl).flatten.map key = t.flatten.map key := by
  match t with
  | .node i k =>
    simp only [Tree.archive]
    split
    · split
      · rename_i hpp
        have hnf : (i.st == Status.fresh) = false := by
          have : i.st = .preProcessed := by simpa using hpp
          rw [this]; rfl
        split
        · split <;> simp [Tree.flatten, key, hnf]
        · simp [Tree.flatten, key, hnf]
      · rfl
    · simp only [Tree.flatten, List.map_cons, Forest.flatten_archive_key srv d (lvl + 1) k]
theorem Forest.flatten_archive_key (srv : String → Option Outcome) (d lvl : Nat) (f : Forest) :
    (f.archive srv d lvl).flatten.map key = f.flatten.map key := by
  match f with
  | .nil => rfl
  | .cons t f => simp only [Forest.archive, Forest.flatten, List.map_append, Tree.flatten_archive_key srv d lvl t, Forest.flatten_archive_key srv d lvl f]
end

mutual
/-- completion marking relabels GotChildren / GotRedirected nodes only -/
theorem Tree.flatten_mark_key (F : IF) (hF : okSets F = true) (t : Tree) : (t.mark F).flatten.map key = t.flatten.map key := by
  match t with
  | .node i k =>
    simp only [Tree.mark]
    split
    · rename_i hc
      have hm : (i.st == .gotChildren || i.st == .gotRedirected) = true := by
        rw [← markable_eq F hF]; exact (Bool.and_eq_true _ _ ▸ hc).2
      have hnf : (i.st == Status.fresh) = false := by cases hs : i.st <;> simp_all
      simp [Tree.flatten, key, hnf, Forest.flatten_mark_key F hF k]
    · simp [Tree.flatten, Forest.flatten_mark_key F hF k]
theorem Forest.flatten_mark_key (F : IF) (hF : okSets F = true) (f : Forest) : (f.mark F).flatten.map key = f.flatten.map key := by
  match f with
  | .nil => rfl
  | .cons t f => simp only [Forest.mark, Forest.flatten, List.map_append, Tree.flatten_mark_key F hF t, Forest.flatten_mark_key F hF f]
end

theorem mem_of_map_key_eq {a b : List Info} (h : a.map key = b.map key) (i : Info) (hi : i ∈ b) : ∃ j ∈ a, key j = key i := by
  have : key i ∈ b.map key := List.mem_map.2 ⟨i, hi, rfl⟩
  rw [← h] at this
  obtain ⟨j, hj, hk⟩ := List.mem_map.1 this
  exact ⟨j, hj, hk⟩

end Zeno.Model.Life
