import Zeno.Model.DiskProg
import Zeno.Gen.DiskProg
import Zeno.Gen.Disk
import Zeno.Proofs.Disk
/-! The translated `checkThreshold` computes exactly the model's `refuse` — for every volume size, free space and setting. -/
set_option linter.unusedSimpArgs false
namespace Zeno.Model.DiskProg
open Zeno Zeno.Model.Disk Zeno.Model.RateProg

abbrev P : Progs := Zeno.Gen.DiskProg.facts
abbrev G : Zeno.Model.Disk.Facts := Zeno.Gen.Disk.facts

/-- the comparison `free < uint64(math.Ceil(x))` of the program against the model's conversion, for a non-negative threshold -/
theorem tail_eq (x : Rat) (free : Nat) (h0 : 0 ≤ x) :
    ((if ((x.ceil : Int) : Rat) < 0 ∨ (18446744073709551616 : Rat) ≤ ((x.ceil : Int) : Rat) then none
        else some ((x.ceil : Int) : Rat)).bind fun y => some (decide ((free : Rat) < y)))
      = (toU64 .ceil x).map (fun t => decide (free < t)) := by
  have hc0 : (0 : Int) ≤ x.ceil := by
    have : ((0 : Int) : Rat) ≤ (x.ceil : Rat) := Rat.le_trans (by simpa using h0) Rat.le_ceil
    exact Rat.intCast_le_intCast.mp this
  have hc0' : ¬ ((x.ceil : Int) : Rat) < 0 := by
    have : ((0 : Int) : Rat) ≤ (x.ceil : Rat) := Rat.intCast_le_intCast.mpr hc0
    exact Rat.not_lt.mpr (by simpa using this)
  have hx0 : ¬ x < 0 := Rat.not_lt.mpr h0
  unfold toU64 two64
  by_cases hbig : (18446744073709551616 : Rat) ≤ ((x.ceil : Int) : Rat)
  · by_cases hx : (18446744073709551616 : Rat) ≤ x <;> simp [hc0', hbig, hx, hx0]
  · have hx : ¬ (18446744073709551616 : Rat) ≤ x := fun h => hbig (Rat.le_trans h Rat.le_ceil)
    simp only [hc0', hbig, hx, hx0, or_self, if_false, Option.bind, Option.map]
    congr 1
    have h1 : ((free : Rat) < ((x.ceil : Int) : Rat)) ↔ ((free : Rat) < x) := by
      have := @Rat.lt_ceil_iff x (free : Int)
      rw [Rat.intCast_natCast] at this
      rw [← this, ← Rat.intCast_natCast, Rat.intCast_lt_intCast]
    have h2 := nat_lt_ceil_toNat free x
    simp only [h1, h2]

theorem G_conv : G.conv = .ceil := rfl
theorem G_branch : G.refuseInBranch = true := rfl
theorem G_freeOp : G.freeOp = .lt := rfl

/-- what the program does once `threshold` holds `x ≥ 0` -/
theorem finish_eq (x : Rat) (free : Nat) (h0 : 0 ≤ x) (r : Option Bool)
    (hr : r = ((toU64 .ceil x).map (fun t => decide (free < t))).bind (fun b => some b)) :
    r = match toU64 G.conv x with
        | none => none
        | some t => some (G.refuseInBranch && G.freeOp.eval free t) := by
  rw [G_conv, G_branch, G_freeOp, hr]
  cases toU64 .ceil x <;> simp [Cmp.eval]

theorem check_translated (total free : Nat) (msr : Rat) : runCheck P total free msr = refuse G total free msr := by
  unfold runCheck refuse
  by_cases h1 : 0 < msr
  · have ht : threshold G total msr = msr * 1073741824 := by
      simp [threshold, G, Zeno.Gen.Disk.facts, Cmp.eval, h1]
    have h0 : 0 ≤ msr * 1073741824 := by
      have : (0 : Rat) ≤ 1073741824 := by decide
      exact Rat.mul_nonneg (Rat.le_of_lt h1) this
    rw [ht]
    apply finish_eq _ _ h0
    simp [P, Zeno.Gen.DiskProg.facts, ABlock.exec, AStmt.exec, RExp.eval, CExp.eval, setLocal, Cmp.eval, h1]
    rw [tail_eq _ free h0]
    cases toU64 .ceil (msr * 1073741824) with
    | none => rfl
    | some t => by_cases hb : free < t <;> simp [hb]
  · by_cases h2 : total ≤ 274877906944
    · have ht : threshold G total msr = 53687091200 * ((total : Rat) / 274877906944) := by
        simp [threshold, G, Zeno.Gen.Disk.facts, Cmp.eval, h1, h2]
      have h2' : (total : Rat) ≤ 274877906944 := by
        have := (Rat.intCast_le_intCast (a := (total : Int)) (b := 274877906944)).mpr (by omega)
        rw [Rat.intCast_natCast] at this
        simpa using this
      have h0 : 0 ≤ (53687091200 : Rat) * ((total : Rat) / 274877906944) := by
        have ht0 : (0 : Rat) ≤ (total : Rat) := by
          have := (Rat.intCast_le_intCast (a := 0) (b := (total : Int))).mpr (by omega)
          rw [Rat.intCast_natCast] at this
          simpa using this
        have : (0 : Rat) ≤ (total : Rat) / 274877906944 := by
          rw [Rat.div_def]; exact Rat.mul_nonneg ht0 (Rat.le_of_lt inv256_pos)
        exact Rat.mul_nonneg (by decide) this
      rw [ht]
      apply finish_eq _ _ h0
      simp [P, Zeno.Gen.DiskProg.facts, ABlock.exec, AStmt.exec, RExp.eval, CExp.eval, setLocal, Cmp.eval, h1, h2']
      rw [tail_eq _ free h0]
      cases toU64 .ceil ((53687091200 : Rat) * ((total : Rat) / 274877906944)) with
      | none => rfl
      | some t => by_cases hb : free < t <;> simp [hb]
    · have ht : threshold G total msr = 53687091200 := by
        simp [threshold, G, Zeno.Gen.Disk.facts, Cmp.eval, h1, h2]
      have h2' : ¬ (total : Rat) ≤ 274877906944 := by
        intro h
        have : ((total : Int) : Rat) ≤ ((274877906944 : Int) : Rat) := by
          rw [Rat.intCast_natCast]; simpa using h
        have := Rat.intCast_le_intCast.mp this
        omega
      have h0 : (0 : Rat) ≤ 53687091200 := by decide
      rw [ht]
      apply finish_eq _ _ h0
      simp [P, Zeno.Gen.DiskProg.facts, ABlock.exec, AStmt.exec, RExp.eval, CExp.eval, setLocal, Cmp.eval, h1, h2']
      rw [tail_eq _ free h0]
      cases toU64 .ceil (53687091200 : Rat) with
      | none => rfl
      | some t => by_cases hb : free < t <;> simp [hb]

end Zeno.Model.DiskProg
