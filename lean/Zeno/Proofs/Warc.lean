import Zeno.Model.Warc
/-! Ordering lemmas (core Lean only). -/
set_option linter.unusedSimpArgs false
set_option linter.unusedVariables false
namespace Zeno.Model.Warc
open Zeno

def okOrder (A : AF) (Q : QF) : Bool :=
  A.feedbackChanUnlessAsync && A.feedbackAwaitedBeforeArchived && A.failedAttemptsAwaitFeedback && A.failedAttemptsDrainBody &&
  A.processBodyBeforeWait && Q.finishNotifiesAfterMark

/-- closure of a prefix: whatever is archived was written, whatever is notified had all its exchanges archived -/
structure Closed (fetched : Nat → List Nat) (pre : List Ev) : Prop where
  arch : ∀ u, Ev.archived u ∈ pre → Ev.written u ∈ pre
  sett : ∀ u, Ev.settled u ∈ pre → Ev.written u ∈ pre
  noti : ∀ s, Ev.notify s ∈ pre → ∀ u ∈ fetched s, Ev.archived u ∈ pre ∨ Ev.settled u ∈ pre
  del : ∀ s, Ev.deleted s ∈ pre → Ev.notify s ∈ pre

theorem closed_step (A : AF) (Q : QF) (hok : okOrder A Q = true) (fetched : Nat → List Nat) (pre : List Ev) (e : Ev)
    (hc : Closed fetched pre) (hg : guard A Q true fetched pre e = true) : Closed fetched (pre ++ [e]) := by
  simp only [okOrder, Bool.and_eq_true] at hok
  obtain ⟨⟨⟨⟨⟨h1, h2⟩, h3⟩, _⟩, _⟩, h4⟩ := hok
  refine ⟨?_, ?_, ?_, ?_⟩
  · intro u hu
    rcases List.mem_append.mp hu with hu | hu
    · exact List.mem_append_left _ (hc.arch u hu)
    · simp only [List.mem_singleton] at hu
      subst hu
      simp only [guard, h1, h2, Bool.and_self, if_true, List.contains_eq_mem, decide_eq_true_eq] at hg
      exact List.mem_append_left _ hg
  · intro u hu
    rcases List.mem_append.mp hu with hu | hu
    · exact List.mem_append_left _ (hc.sett u hu)
    · simp only [List.mem_singleton] at hu
      subst hu
      simp only [guard, h1, h3, Bool.and_self, if_true, List.contains_eq_mem, decide_eq_true_eq] at hg
      exact List.mem_append_left _ hg
  · intro s hs u hu
    rcases List.mem_append.mp hs with hs | hs
    · rcases hc.noti s hs u hu with h | h
      · exact Or.inl (List.mem_append_left _ h)
      · exact Or.inr (List.mem_append_left _ h)
    · simp only [List.mem_singleton] at hs
      subst hs
      simp only [guard, h4, if_true, List.all_eq_true, List.contains_eq_mem, Bool.or_eq_true, decide_eq_true_eq] at hg
      rcases hg u hu with h | h
      · exact Or.inl (List.mem_append_left _ h)
      · exact Or.inr (List.mem_append_left _ h)
  · intro s hs
    rcases List.mem_append.mp hs with hs | hs
    · exact List.mem_append_left _ (hc.del s hs)
    · simp only [List.mem_singleton] at hs
      subst hs
      simp only [guard, List.contains_eq_mem, decide_eq_true_eq] at hg
      exact List.mem_append_left _ hg

theorem closed_run (A : AF) (Q : QF) (hok : okOrder A Q = true) (fetched : Nat → List Nat) (pre log : List Ev)
    (hc : Closed fetched pre) (ha : admissible A Q true fetched pre log = true) : Closed fetched (pre ++ log) := by
  induction log generalizing pre with
  | nil => simpa using hc
  | cons e rest ih =>
    simp only [admissible, Bool.and_eq_true] at ha
    have := ih (pre ++ [e]) (closed_step A Q hok fetched pre e hc ha.1) ha.2
    simpa using this

/-- admissibility is prefix closed: what is on disk after a crash is an admissible log too -/
theorem admissible_prefix (A : AF) (Q : QF) (sync : Bool) (fetched : Nat → List Nat) (pre a b : List Ev)
    (h : admissible A Q sync fetched pre (a ++ b) = true) : admissible A Q sync fetched pre a = true := by
  induction a generalizing pre with
  | nil => rfl
  | cons e rest ih =>
    simp only [List.cons_append, admissible, Bool.and_eq_true] at h ⊢
    exact ⟨h.1, ih (pre ++ [e]) h.2⟩

/-- **Finished implies captured.** In every admissible log (synchronous WARC writing), when the queue row
of a seed is deleted — and equally when the seed is reported finished — every exchange fetched for it
was written to the WARC earlier in the log; this also holds for every prefix (a crash at any point). -/
theorem finished_implies_captured (A : AF) (Q : QF) (hok : okOrder A Q = true) (fetched : Nat → List Nat)
    (a b : List Ev) (s : Nat) (e : Ev) (he : e = .deleted s ∨ e = .notify s)
    (h : admissible A Q true fetched [] (a ++ e :: b) = true) : ∀ u ∈ fetched s, Ev.written u ∈ a := by
  have hpre := admissible_prefix A Q true fetched [] (a ++ [e]) b (by simpa using h)
  have hc := closed_run A Q hok fetched [] (a ++ [e]) ⟨by simp, by simp, by simp, by simp⟩ hpre
  simp only [List.nil_append] at hc
  intro u hu
  have hn : Ev.notify s ∈ a ++ [e] := by
    rcases he with he | he
    · exact hc.del s (by simp [he])
    · simp [he]
  have hw : Ev.written u ∈ a ++ [e] := by
    rcases hc.noti s hn u hu with harch | hsett
    · exact hc.arch u harch
    · exact hc.sett u hsett
  rcases List.mem_append.mp hw with hw | hw
  · exact hw
  · simp only [List.mem_singleton] at hw
    rcases he with he | he <;> rw [he] at hw <;> cases hw

/-- the retry loop `for retry := 0; retry <= MaxRetry; retry++` runs its body exactly `MaxRetry + 1` times -/
theorem attempts_le (A : AF) (h : A.retryLoopOp = .le) (maxRetry : Nat) : attempts A maxRetry = maxRetry + 1 := by
  unfold attempts
  rw [h, List.range_succ, List.filter_append]
  have h1 : (List.range (maxRetry + 1)).filter (fun r => Cmp.le.eval r maxRetry) = List.range (maxRetry + 1) := by
    apply List.filter_eq_self.2
    intro a ha
    simp only [List.mem_range] at ha
    simp only [Cmp.eval, decide_eq_true_eq]
    omega
  have h2 : [maxRetry + 1].filter (fun r => Cmp.le.eval r maxRetry) = [] := by
    simp [Cmp.eval]
  rw [h1, h2]; simp

/-- the loop invariant: the number of requests sent equals the retry counter -/
theorem visitFrom_bound (A : AF) (h1 : A.retryLoopOp = .le) (maxRetry : Nat) (site : Nat → Attempt) (fuel r : Nat) (hr : r ≤ maxRetry + 1) :
    (visitFrom A maxRetry site fuel r r).1 ≤ maxRetry + 1 := by
  induction fuel generalizing r with
  | zero => simpa [visitFrom] using hr
  | succ f ih =>
    unfold visitFrom
    by_cases hc : A.retryLoopOp.eval r maxRetry = true
    · have hle : r ≤ maxRetry := by
        rw [h1] at hc
        simp only [Cmp.eval, decide_eq_true_eq] at hc
        omega
      simp only [hc, Bool.not_true, Bool.false_eq_true, if_false]
      split
      · split
        · exact ih (r + 1) (by omega)
        · simp only; omega
      · split
        · split
          · exact ih (r + 1) (by omega)
          · simp only; omega
        · simp only; omega
    · simp only [hc, Bool.not_false, if_true]
      exact hr

/-- **at most max-retry + 1 requests per visit**, whatever the site answers on each attempt -/
theorem visit_bound (A : AF) (h1 : A.retryLoopOp = .le) (maxRetry : Nat) (site : Nat → Attempt) :
    (visit A maxRetry site).1 ≤ maxRetry + 1 := by
  unfold visit
  split
  · exact visitFrom_bound A h1 maxRetry site _ 0 (by omega)
  · simp

/-- with the guards `retry <= MaxRetry` / `retry < MaxRetry` the loop never ends by its own condition: every
visit ends with the node Failed or with a kept response -/
theorem visitFrom_ends (A : AF) (h1 : A.retryLoopOp = .le) (h2 : A.retryInnerOp = .lt) (maxRetry : Nat) (site : Nat → Attempt)
    (fuel r n : Nat) (hr : r ≤ maxRetry) (hf : maxRetry + 1 ≤ fuel + r) :
    (visitFrom A maxRetry site fuel r n).2 ≠ .fellThrough := by
  induction fuel generalizing r n with
  | zero => omega
  | succ f ih =>
    unfold visitFrom
    have hc : A.retryLoopOp.eval r maxRetry = true := by
      rw [h1]; simp only [Cmp.eval, decide_eq_true_eq]; omega
    simp only [hc, Bool.not_true, Bool.false_eq_true, if_false]
    have hag : A.retryInnerOp.eval r maxRetry = true → r + 1 ≤ maxRetry := by
      rw [h2]; simp only [Cmp.eval, decide_eq_true_eq]; omega
    split
    · split
      · rename_i ha; exact ih (r + 1) (n + 1) (hag ha) (by omega)
      · simp
    · split
      · split
        · rename_i ha; exact ih (r + 1) (n + 1) (hag ha) (by omega)
        · simp
      · simp

end Zeno.Model.Warc
