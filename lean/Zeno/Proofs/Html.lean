import Zeno.Model.Html
set_option linter.unusedSimpArgs false
namespace Zeno.Model.Html
open Zeno

theorem mem_optL {o : Option String} {v : String} (h : o = some v) : v ∈ optL o := by simp [optL, h]

theorem img_attr (H : HF) (cfg : Cfg) (els : List El) (e : El) (he : e ∈ els) (ht : e.tag = "img") (hen : enabled cfg "img" = true)
    (a : String) (ha : a = "src" ∨ a = "data-src" ∨ a = "data-lazy-src") (v : String) (hv : e.attr a = some v) : v ∈ htmlAssets H cfg els := by
  simp only [htmlAssets, hen, if_true, List.mem_append, List.mem_flatMap, List.mem_filter]
  refine Or.inl (Or.inl (Or.inl (Or.inl (Or.inl (Or.inl (Or.inr ⟨e, ⟨he, by simp [ht]⟩, ?_⟩))))))
  rcases ha with rfl | rfl | rfl
  · exact Or.inl (Or.inl (Or.inl (Or.inl (mem_optL hv))))
  · exact Or.inl (Or.inl (Or.inl (Or.inr (mem_optL hv))))
  · exact Or.inl (Or.inl (Or.inr (mem_optL hv)))

theorem img_srcset (H : HF) (cfg : Cfg) (els : List El) (e : El) (he : e ∈ els) (ht : e.tag = "img") (hen : enabled cfg "img" = true)
    (a : String) (ha : a = "srcset" ∨ a = "data-srcset") (v : String) (hv : e.attr a = some v) :
    ∀ u ∈ srcsetURLs v, u ∈ htmlAssets H cfg els := by
  intro u hu
  simp only [htmlAssets, hen, if_true, List.mem_append, List.mem_flatMap, List.mem_filter]
  refine Or.inl (Or.inl (Or.inl (Or.inl (Or.inl (Or.inl (Or.inr ⟨e, ⟨he, by simp [ht]⟩, ?_⟩))))))
  rcases ha with rfl | rfl
  · exact Or.inr (by simp [hv, hu])
  · exact Or.inl (Or.inr (by simp [hv, hu]))

theorem media_src (H : HF) (cfg : Cfg) (els : List El) (e : El) (he : e ∈ els) (t : String) (ht : e.tag = t)
    (htt : t = "video" ∨ t = "audio") (hen : enabled cfg t = true) (v : String) (hv : e.attr "src" = some v) : v ∈ htmlAssets H cfg els := by
  simp only [htmlAssets, List.mem_append, List.mem_flatMap, List.mem_filter]
  refine Or.inl (Or.inl (Or.inl (Or.inl (Or.inl (Or.inr ⟨e, ⟨he, ?_⟩, mem_optL hv⟩)))))
  rcases htt with rfl | rfl <;> simp [ht, hen]

theorem style_element (H : HF) (cfg : Cfg) (els : List El) (e : El) (he : e ∈ els) (ht : e.tag = "style") (hen : enabled cfg "style" = true)
    (m : List Char) (hm : m ∈ urlFuncs e.text.length e.text.toList) (hwp : startsWith (styleURL H m) "#wp-" = false) :
    styleURL H m ∈ htmlAssets H cfg els := by
  simp only [htmlAssets, hen, if_true, List.mem_append, List.mem_flatMap, List.mem_filter, List.mem_map]
  exact Or.inl (Or.inl (Or.inl (Or.inl (Or.inr ⟨e, ⟨he, by simp [ht]⟩, ⟨m, hm, rfl⟩, by simp [hwp]⟩))))

theorem script_src (H : HF) (cfg : Cfg) (els : List El) (e : El) (he : e ∈ els) (ht : e.tag = "script") (hen : enabled cfg "script" = true)
    (v : String) (hv : e.attr "src" = some v) : v ∈ htmlAssets H cfg els := by
  simp only [htmlAssets, hen, if_true, List.mem_append, List.mem_flatMap, List.mem_filter]
  exact Or.inl (Or.inl (Or.inl (Or.inr ⟨e, ⟨he, by simp [ht]⟩, Or.inl (mem_optL hv)⟩)))

theorem link_href (H : HF) (cfg : Cfg) (els : List El) (e : El) (he : e ∈ els) (ht : e.tag = "link") (hen : enabled cfg "link" = true)
    (hrel : cfg.captureAlternate = true ∨ e.attr "rel" ≠ some "alternate") (v : String) (hv : e.attr "href" = some v) : v ∈ htmlAssets H cfg els := by
  simp only [htmlAssets, hen, if_true, List.mem_append, List.mem_flatMap, List.mem_filter]
  refine Or.inl (Or.inl (Or.inr ⟨e, ⟨he, by simp [ht]⟩, ?_⟩))
  have : (!cfg.captureAlternate && e.attr "rel" == some "alternate") = false := by
    rcases hrel with h | h
    · simp [h]
    · simp [h]
  simp only [this, Bool.false_eq_true, if_false]
  exact mem_optL hv

theorem source_src (H : HF) (cfg : Cfg) (els : List El) (e : El) (he : e ∈ els) (ht : e.tag = "source") (hen : enabled cfg "source" = true)
    (v : String) (hv : e.attr "src" = some v) : v ∈ htmlAssets H cfg els := by
  simp only [htmlAssets, hen, if_true, List.mem_append, List.mem_flatMap, List.mem_filter]
  exact Or.inr ⟨e, ⟨he, by simp [ht]⟩, Or.inl (Or.inl (mem_optL hv))⟩

theorem source_srcset (H : HF) (cfg : Cfg) (els : List El) (e : El) (he : e ∈ els) (ht : e.tag = "source") (hen : enabled cfg "source" = true)
    (a : String) (ha : a = "srcset" ∨ a = "data-srcset") (v : String) (hv : e.attr a = some v) :
    ∀ u ∈ srcsetURLs v, u ∈ htmlAssets H cfg els := by
  intro u hu
  simp only [htmlAssets, hen, if_true, List.mem_append, List.mem_flatMap, List.mem_filter]
  refine Or.inr ⟨e, ⟨he, by simp [ht]⟩, ?_⟩
  rcases ha with rfl | rfl
  · exact Or.inl (Or.inr (by simp [hv, hu]))
  · exact Or.inr (by simp [hv, hu])

theorem style_attr (H : HF) (cfg : Cfg) (els : List El) (e : El) (he : e ∈ els) (u : String) (hu : u ∈ styleAttrAssets e) :
    u ∈ htmlAssets H cfg els := by
  simp only [htmlAssets, List.mem_append, List.mem_flatMap]
  exact Or.inl (Or.inl (Or.inl (Or.inl (Or.inl (Or.inl (Or.inl (Or.inl ⟨e, he, Or.inl hu⟩)))))))

theorem anchor_href (cfg : Cfg) (els : List El) (e : El) (he : e ∈ els) (ht : e.tag = "a") (hen : enabled cfg "a" = true)
    (v : String) (hv : e.attr "href" = some v) (hne : v ≠ "") : v ∈ htmlOutlinks cfg els := by
  simp only [htmlOutlinks, hen, if_true, List.mem_flatMap, List.mem_filter]
  refine ⟨e, ⟨he, by simp [ht]⟩, "href", by simp [anchorLinkAttrs], ?_⟩
  simp [hv, hne]

/-- with the scheme-relative rewriting gone, a `url(...)` of a `<style>` element is passed on as written (quotes stripped) -/
theorem styleURL_keeps (H : HF) (h : H.styleSchemeRelative = "keeps") (m : List Char) : styleURL H m = String.ofList (stripQuotes m) := by
  simp [styleURL, h]

end Zeno.Model.Html
