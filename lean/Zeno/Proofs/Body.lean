import Zeno.Model.Body
namespace Zeno.Model.Body
open Zeno

/-- what a run that respects the syntactic check looks like -/
def Good (e : Env) (after : Bool) : Out → Prop
  | .ok r _ => r = e.len
  | .fell r _ => after = true → r = e.len
  | .err => True
  | .unknown => False

mutual
theorem stmt_sound (e : Env) (s : BStmt) (d : Bool) (read : Nat) (kept : Bool) (h1 : (s.drains d).1 = true)
    (hd : d = true → read = e.len) : Good e (s.drains d).2 (s.exec e read kept) := by
  match s with
  | .drain => simp [BStmt.exec, BStmt.drains, Good]
  | .spool => simp [BStmt.exec, BStmt.drains, Good]
  | .sniff n =>
    simp only [BStmt.exec, BStmt.drains, Good]
    intro h; have := hd h; omega
  | .keep => simpa [BStmt.exec, BStmt.drains, Good] using hd
  | .skip _ => simpa [BStmt.exec, BStmt.drains, Good] using hd
  | .ret =>
    simp only [BStmt.drains] at h1
    simpa [BStmt.exec, Good] using hd h1
  | .retErr => simp [BStmt.exec, Good]
  | .opaque _ => simp [BStmt.drains] at h1
  | .ite c t f =>
    simp only [BStmt.drains, Bool.and_eq_true] at h1 ⊢
    simp only [BStmt.exec]
    have ht := block_sound e t d read kept h1.1 hd
    have hf := block_sound e f d read kept h1.2 hd
    split
    · cases ho : t.exec e read kept with
      | fell r k => rw [ho] at ht; simp only [Good] at ht ⊢; intro h; exact ht (Bool.and_eq_true _ _ ▸ h).1
      | ok r k => rw [ho] at ht; simpa [Good] using ht
      | err => simp [Good]
      | unknown => rw [ho] at ht; simp [Good] at ht
    · cases ho : f.exec e read kept with
      | fell r k => rw [ho] at hf; simp only [Good] at hf ⊢; intro h; exact hf (Bool.and_eq_true _ _ ▸ h).2
      | ok r k => rw [ho] at hf; simpa [Good] using hf
      | err => simp [Good]
      | unknown => rw [ho] at hf; simp [Good] at hf
theorem block_sound (e : Env) (b : BBlock) (d : Bool) (read : Nat) (kept : Bool) (h1 : (b.drains d).1 = true)
    (hd : d = true → read = e.len) : Good e (b.drains d).2 (b.exec e read kept) := by
  match b with
  | .nil => simpa [BBlock.exec, BBlock.drains, Good] using hd
  | .cons s rest =>
    simp only [BBlock.drains, Bool.and_eq_true] at h1 ⊢
    have hs := stmt_sound e s d read kept h1.1 hd
    simp only [BBlock.exec]
    cases ho : s.exec e read kept with
    | fell r k =>
      rw [ho] at hs
      simp only [Good] at hs
      exact block_sound e rest (s.drains d).2 r k h1.2 hs
    | ok r k => rw [ho] at hs; simpa [Good] using hs
    | err => simp [Good]
    | unknown => rw [ho] at hs; simp [Good] at hs
end

/-- **Soundness of the check.** If every way to a successful return of the translated function passes through a read-to-the-end
(and nothing is opaque), then every run — whatever the flags, the MIME class, the other conditions and the length of the body —
that returns nil has read all `len` bytes, and no run meets a statement the translator did not understand. -/
theorem drains_sound (p : BBlock) (h : allPathsDrain p = true) (e : Env) :
    (∀ r k, run p e = .ok r k → r = e.len) ∧ run p e ≠ .unknown := by
  simp only [allPathsDrain, Bool.and_eq_true] at h
  have hs := block_sound e p false 0 false h.1 (by intro hh; cases hh)
  unfold run
  cases ho : p.exec e 0 false with
  | fell r k =>
    rw [ho] at hs
    simp only [Good] at hs
    exact ⟨(by intro r' k' heq; cases heq; exact hs h.2), (by simp)⟩
  | ok r k =>
    rw [ho] at hs
    simp only [Good] at hs
    exact ⟨(by intro r' k' heq; cases heq; exact hs), (by simp)⟩
  | err => exact ⟨(by intro r' k' heq; cases heq), (by simp)⟩
  | unknown => rw [ho] at hs; exact absurd hs (by simp [Good])

end Zeno.Model.Body
