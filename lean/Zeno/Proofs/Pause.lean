import Zeno.Model.Pause
/-! Invariant of the pause protocol and its consequences at quiescence (core Lean only). -/
set_option linter.unusedSimpArgs false
set_option linter.unnecessarySimpa false
set_option linter.unusedVariables false
namespace Zeno.Model.Pause
open Zeno

def okShapes (F : Facts) : Bool :=
  F.subscribeSerialised && F.subscribeSignalsWhenPaused &&
  F.pauseChBuffered1 && F.resumeChUnbuffered && F.unsubscribeDeletesThenCloses && F.pauseCasFalseTrueFirst &&
  F.pauseSendNonBlocking && F.resumeCollectsThenClears && F.resumeHandlesClosed &&
  F.preprocessorSubscribesAndDefersUnsubscribe && F.archiverSubscribesAndDefersUnsubscribe &&
  F.postprocessorSubscribesAndDefersUnsubscribe && F.finisherSubscribesAndDefersUnsubscribe &&
  -- a running worker can take its pause signal whenever it is not busy with a seed: the select in which it waits for work has the
  -- pause case (the model's `takeToken` is enabled for every running worker that holds a signal)
  F.preprocessorListensWhileIdle && F.archiverListensWhileIdle && F.postprocessorListensWhileIdle && F.finisherListensWhileIdle

def ok (F : Facts) : Bool := okShapes F && guarded F && ackCancellable F

theorem ok_guarded {F : Facts} (h : ok F = true) : guarded F = true := by
  simp only [ok, Bool.and_eq_true] at h; exact h.1.2
theorem ok_ack {F : Facts} (h : ok F = true) : ackCancellable F = true := by
  simp only [ok, Bool.and_eq_true] at h; exact h.2

/-- subscriber `i` still has something to do with the current pause: a signal is on its way, in its
channel, or it is acknowledging -/
def busy (s : S) (i : Nat) : Prop :=
  i ∈ s.pauses.flatten ∨ (s.sub i).token = true ∨ (s.sub i).st = .acking

structure Inv (s : S) : Prop where
  nodup : s.pauses.flatten.Nodup
  noempty : ∀ p ∈ s.pauses, p ≠ []
  excl : ∀ i, s.live i = true →
    (i ∈ s.pauses.flatten → (s.sub i).token = false ∧ (s.sub i).st ≠ .acking) ∧
    ((s.sub i).token = true → (s.sub i).st ≠ .acking)
  unp : s.paused = false → s.resumes = [] ∧ ∀ i, s.live i = true → ¬ busy s i
  res : s.resumes = [] ∨ ∃ w, s.resumes = [w] ∧ w.Nodup
  p0 : s.paused = true → s.resumes = [] → ∀ i, s.live i = true → busy s i
  p1 : s.paused = true → ∀ w, s.resumes = [w] → ∀ i, s.live i = true → (i ∈ w ↔ busy s i)

/-! #### small lemmas -/

theorem flatten_dropEmpty (l : List (List Nat)) : (dropEmpty l).flatten = l.flatten := by
  induction l with
  | nil => rfl
  | cons x xs ih =>
    simp only [dropEmpty, List.filter_cons]
    cases x with
    | nil => simpa [dropEmpty] using ih
    | cons a as => simp [dropEmpty] at ih ⊢; exact ih

theorem dropEmpty_noempty (l : List (List Nat)) : ∀ p ∈ dropEmpty l, p ≠ [] := by
  intro p hp
  simp only [dropEmpty, List.mem_filter, Bool.not_eq_true', List.isEmpty_eq_false_iff] at hp
  exact hp.2

theorem live_lt (s : S) (i : Nat) (h : s.live i = true) : i < s.n := by
  unfold S.live S.sub Sub.live at h
  by_cases hi : i < s.n
  · exact hi
  · simp [hi] at h

theorem mem_liveIdx (s : S) (i : Nat) : i ∈ s.liveIdx ↔ s.live i = true := by
  unfold S.liveIdx
  simp only [List.mem_filter, List.mem_range]
  exact ⟨fun h => h.2, fun h => ⟨live_lt s i h, h⟩⟩

theorem liveIdx_nodup (s : S) : s.liveIdx.Nodup := by
  unfold S.liveIdx
  exact (List.nodup_range).sublist List.filter_sublist

theorem sub_setSub (s : S) (i j : Nat) (u : Sub) (hi : i < s.n) :
    (s.setSub i u).sub j = if j = i then u else s.sub j := by
  unfold S.setSub S.sub
  simp only
  by_cases hj : j = i
  · subst hj; simp [hi]
  · simp [hj]

theorem sub_setSub_ne (s : S) (i j : Nat) (u : Sub) (hj : j ≠ i) : (s.setSub i u).sub j = s.sub j := by
  unfold S.setSub S.sub
  simp [hj]

/-- the init state -/
theorem init_sub (n i : Nat) : ((S.init n).sub i).token = false ∧ ((S.init n).sub i).st ≠ .acking := by
  unfold S.init S.sub
  by_cases hi : i < n <;> simp [hi]

theorem inv_init (n : Nat) : Inv (S.init n) := by
  refine ⟨by simp [S.init], by simp [S.init], ?_, ?_, Or.inl rfl, by simp [S.init], by simp [S.init]⟩
  · intro i _
    have := init_sub n i
    exact ⟨fun _ => this, fun h => absurd h (by simp [this.1])⟩
  · intro _
    refine ⟨rfl, ?_⟩
    intro i _ hb
    have := init_sub n i
    rcases hb with h | h | h
    · simp [S.init] at h
    · simp [this.1] at h
    · exact this.2 h

/-! #### preservation, action by action (with the flag test and the lock in `Resume`) -/

theorem inv_startResume (F : Facts) (hg : guarded F = true) (s : S) (h : Inv s) (hr : s.resumes = []) :
    Inv (startResume F s) := by
  unfold startResume
  simp only [hg, Bool.true_and]
  split
  · exact h
  · rename_i hp
    have hp' : s.paused = true := by simpa using hp
    refine ⟨h.nodup, h.noempty, h.excl, ?_, ?_, ?_, ?_⟩
    · intro hf; simp only at hf; rw [hp'] at hf; cases hf
    · right; exact ⟨s.liveIdx, by simp [hr], liveIdx_nodup s⟩
    · intro _ hre; simp [hr] at hre
    · intro _ w hw i hi
      simp only [hr, List.nil_append, List.cons.injEq, and_true] at hw
      subst hw
      have hb := h.p0 hp' hr i hi
      exact ⟨fun _ => hb, fun _ => (mem_liveIdx s i).mpr hi⟩

theorem inv_pauseCall (F : Facts) (s s' : S) (h : Inv s) (hs : step F s .pauseCall = some s') : Inv s' := by
  simp only [step] at hs
  split at hs
  · cases hs; exact h
  · rename_i hp
    have hp' : s.paused = false := by simpa using hp
    cases hs
    obtain ⟨hres, hclean⟩ := h.unp hp'
    have hfl : (dropEmpty (s.pauses ++ [s.liveIdx])).flatten = s.pauses.flatten ++ s.liveIdx := by
      rw [flatten_dropEmpty]; simp
    refine ⟨?_, dropEmpty_noempty _, ?_, ?_, Or.inl hres, ?_, ?_⟩
    · show (dropEmpty (s.pauses ++ [s.liveIdx])).flatten.Nodup
      rw [hfl]
      refine List.nodup_append.mpr ⟨h.nodup, liveIdx_nodup s, ?_⟩
      intro a ha b hb hab
      subst hab
      exact (hclean a ((mem_liveIdx s a).mp hb)) (Or.inl ha)
    · intro i hi
      have hc := hclean i hi
      have ht : (s.sub i).token = false := by
        cases hx : (s.sub i).token with
        | false => rfl
        | true => exact absurd (Or.inr (Or.inl hx)) hc
      have ha : (s.sub i).st ≠ .acking := fun hx => hc (Or.inr (Or.inr hx))
      exact ⟨fun _ => ⟨ht, ha⟩, fun _ => ha⟩
    · intro hf; cases hf
    · intro _ _ i hi
      left
      show i ∈ (dropEmpty (s.pauses ++ [s.liveIdx])).flatten
      rw [hfl]
      exact List.mem_append_right _ ((mem_liveIdx s i).mpr hi)
    · intro _ w hw
      simp only [hres] at hw
      cases hw

theorem inv_resumeCall (F : Facts) (hg : guarded F = true) (s s' : S) (h : Inv s)
    (hs : step F s .resumeCall = some s') : Inv s' := by
  simp only [step, hg, Bool.true_and] at hs
  split at hs
  · cases hs
    exact ⟨h.nodup, h.noempty, h.excl, h.unp, h.res, h.p0, h.p1⟩
  · rename_i hr
    cases hs
    exact inv_startResume F hg s h (by simpa using hr)

theorem inv_waiterProceed (F : Facts) (hg : guarded F = true) (s s' : S) (h : Inv s)
    (hs : step F s .waiterProceed = some s') : Inv s' := by
  simp only [step, hg, Bool.true_and] at hs
  split at hs
  · rename_i hc
    cases hs
    simp only [Bool.and_eq_true, List.isEmpty_iff, decide_eq_true_eq] at hc
    exact inv_startResume F hg _ ⟨h.nodup, h.noempty, h.excl, h.unp, h.res, h.p0, h.p1⟩ hc.1
  · cases hs

theorem inv_stopCall (F : Facts) (s s' : S) (h : Inv s) (hs : step F s .stopCall = some s') : Inv s' := by
  simp only [step] at hs
  cases hs
  exact ⟨h.nodup, h.noempty, h.excl, h.unp, h.res, h.p0, h.p1⟩

theorem paused_of_resumes (s : S) (h : Inv s) (hr : s.resumes ≠ []) : s.paused = true := by
  cases hp : s.paused with
  | true => rfl
  | false => exact absurd (h.unp hp).1 hr

theorem inv_resumeFinish (F : Facts) (s s' : S) (k : Nat) (h : Inv s)
    (hs : step F s (.resumeFinish k) = some s') : Inv s' := by
  simp only [step] at hs
  split at hs
  · rename_i hk
    cases hs
    -- the only collecting Resume is the one at index 0 and it waits for nobody
    rcases h.res with hr | ⟨w, hr, _⟩
    · rw [hr] at hk; simp at hk
    · have hk0 : k = 0 ∧ w = [] := by
        rw [hr] at hk
        cases k with
        | zero => simp at hk; exact ⟨rfl, hk⟩
        | succ j => simp at hk
      obtain ⟨rfl, rfl⟩ := hk0
      have hp := paused_of_resumes s h (by rw [hr]; simp)
      have hclean : ∀ i, s.live i = true → ¬ busy s i := by
        intro i hi hb
        have := (h.p1 hp [] hr i hi).mpr hb
        cases this
      refine ⟨h.nodup, h.noempty, h.excl, ?_, ?_, ?_, ?_⟩
      · intro _; exact ⟨by simp [hr], hclean⟩
      · left; simp [hr]
      · intro hf; cases hf
      · intro hf; cases hf
  · cases hs

theorem sub_token_lt (s : S) (i : Nat) (h : (s.sub i).token = true) : i < s.n := by
  unfold S.sub at h
  by_cases hi : i < s.n
  · exact hi
  · simp [hi] at h

theorem sub_notexited_lt (s : S) (i : Nat) (h : (s.sub i).st ≠ .exited) : i < s.n := by
  unfold S.sub at h
  by_cases hi : i < s.n
  · exact hi
  · simp [hi] at h

theorem inv_takeToken (F : Facts) (s s' : S) (i : Nat) (h : Inv s) (hs : step F s (.takeToken i) = some s') : Inv s' := by
  simp only [step] at hs
  split at hs
  · rename_i hc
    cases hs
    simp only [Bool.and_eq_true, beq_iff_eq] at hc
    obtain ⟨hrun, htok⟩ := hc
    have hi := sub_token_lt s i htok
    have hlive : s.live i = true := by simp [S.live, Sub.live, hrun]
    have hnf : i ∉ s.pauses.flatten := fun hm => by
      have := ((h.excl i hlive).1 hm).1; rw [htok] at this; cases this
    have hsub : ∀ j, (s.setSub i { st := .acking, token := false }).sub j
        = if j = i then { st := .acking, token := false } else s.sub j := fun j => sub_setSub s i j _ hi
    have hlive' : ∀ j, (s.setSub i { st := .acking, token := false }).live j = s.live j := by
      intro j; simp only [S.live, hsub]
      by_cases hj : j = i
      · subst hj; simp [Sub.live, hrun]; decide
      · simp [hj]
    have hpz : (s.setSub i { st := .acking, token := false }).pauses = s.pauses := rfl
    have hbusy : ∀ j, busy (s.setSub i { st := .acking, token := false }) j ↔ busy s j := by
      intro j
      simp only [busy, hsub, hpz]
      by_cases hj : j = i
      · subst hj; simp [htok]
      · simp [hj]
    refine ⟨h.nodup, h.noempty, ?_, ?_, h.res, ?_, ?_⟩
    · intro j hj
      rw [hlive'] at hj
      by_cases hji : j = i
      · subst hji
        simp only [hsub, if_true]
        exact ⟨fun hm => absurd hm hnf, fun hf => by cases hf⟩
      · simp only [hsub, hji, if_false]
        exact h.excl j hj
    · intro hp
      exfalso
      exact (h.unp hp).2 i hlive (Or.inr (Or.inl htok))
    · intro hp hr j hj
      rw [hlive'] at hj; rw [hbusy]; exact h.p0 hp hr j hj
    · intro hp w hw j hj
      rw [hlive'] at hj; rw [hbusy]; exact h.p1 hp w hw j hj
  · cases hs

theorem inv_exit (F : Facts) (s s' : S) (i : Nat) (h : Inv s) (hs : step F s (.exit i) = some s') : Inv s' := by
  simp only [step] at hs
  split at hs
  · rename_i hc
    cases hs
    simp only [Bool.and_eq_true, decide_eq_true_eq] at hc
    have hi : i < s.n := hc.1.2
    have hsub : ∀ j, (s.setSub i { st := .exited, token := false }).sub j
        = if j = i then { st := .exited, token := false } else s.sub j := fun j => sub_setSub s i j _ hi
    have hlive' : ∀ j, (s.setSub i { st := .exited, token := false }).live j = true → j ≠ i ∧ s.live j = true := by
      intro j hj
      simp only [S.live, hsub] at hj
      by_cases hji : j = i
      · subst hji; simp [Sub.live] at hj
      · simp only [hji, if_false] at hj; exact ⟨hji, hj⟩
    have hbusy : ∀ j, j ≠ i → (busy (s.setSub i { st := .exited, token := false }) j ↔ busy s j) := by
      intro j hj
      have hpz : (s.setSub i { st := .exited, token := false }).pauses = s.pauses := rfl
      simp only [busy, hsub, hj, if_false, hpz]
    refine ⟨h.nodup, h.noempty, ?_, ?_, h.res, ?_, ?_⟩
    · intro j hj
      obtain ⟨hji, hl⟩ := hlive' j hj
      simp only [hsub, hji, if_false]
      exact h.excl j hl
    · intro hp
      refine ⟨(h.unp hp).1, ?_⟩
      intro j hj
      obtain ⟨hji, hl⟩ := hlive' j hj
      rw [hbusy j hji]; exact (h.unp hp).2 j hl
    · intro hp hr j hj
      obtain ⟨hji, hl⟩ := hlive' j hj
      rw [hbusy j hji]; exact h.p0 hp hr j hl
    · intro hp w hw j hj
      obtain ⟨hji, hl⟩ := hlive' j hj
      rw [hbusy j hji]; exact h.p1 hp w hw j hl
  · cases hs

@[simp] theorem live_withResumes (t : S) (r : List (List Nat)) : ({ t with resumes := r } : S).live = t.live := rfl
@[simp] theorem sub_withResumes (t : S) (r : List (List Nat)) : ({ t with resumes := r } : S).sub = t.sub := rfl
@[simp] theorem busy_withResumes (t : S) (r : List (List Nat)) (j : Nat) : busy ({ t with resumes := r } : S) j = busy t j := rfl
@[simp] theorem live_withPauses (t : S) (r : List (List Nat)) : ({ t with pauses := r } : S).live = t.live := rfl
@[simp] theorem sub_withPauses (t : S) (r : List (List Nat)) : ({ t with pauses := r } : S).sub = t.sub := rfl

theorem inv_resumeRecv (F : Facts) (s s' : S) (k i : Nat) (h : Inv s)
    (hs : step F s (.resumeRecv k i) = some s') : Inv s' := by
  simp only [step] at hs
  split at hs
  · rename_i w hk
    split at hs
    · rename_i hiw
      -- the only collecting Resume is at index 0
      rcases h.res with hr | ⟨w0, hr, hnd⟩
      · rw [hr] at hk; simp at hk
      · have hk0 : k = 0 ∧ w = w0 := by
          rw [hr] at hk
          cases k with
          | zero => simp at hk; exact ⟨rfl, hk.symm⟩
          | succ j => simp at hk
        obtain ⟨rfl, rfl⟩ := hk0
        have hp := paused_of_resumes s h (by rw [hr]; simp)
        have hset : s.resumes.set 0 (w.erase i) = [w.erase i] := by rw [hr]; rfl
        split at hs
        · rename_i hack
          have hack' : (s.sub i).st = .acking := by simpa using hack
          cases hs
          have hi : i < s.n := sub_notexited_lt s i (by rw [hack']; decide)
          have hlive : s.live i = true := by simp [S.live, Sub.live, hack']
          have hnf : i ∉ s.pauses.flatten := fun hm => ((h.excl i hlive).1 hm).2 hack'
          have htok : (s.sub i).token = false := by
            cases hx : (s.sub i).token with
            | false => rfl
            | true => exact absurd hack' ((h.excl i hlive).2 hx)
          have hsub : ∀ j, (s.setSub i { s.sub i with st := .running }).sub j
              = if j = i then { s.sub i with st := .running } else s.sub j := fun j => sub_setSub s i j _ hi
          have hlive' : ∀ j, (s.setSub i { s.sub i with st := .running }).live j = s.live j := by
            intro j; simp only [S.live, hsub]
            by_cases hj : j = i
            · subst hj; simp [Sub.live, hack']; decide
            · simp [hj]
          have hpz : (s.setSub i { s.sub i with st := .running }).pauses = s.pauses := rfl
          have hbusy : ∀ j, j ≠ i → (busy (s.setSub i { s.sub i with st := .running }) j ↔ busy s j) := by
            intro j hj; simp only [busy, hsub, hj, if_false, hpz]
          have hnb : ¬ busy (s.setSub i { s.sub i with st := .running }) i := by
            intro hb; rcases hb with hb | hb | hb
            · rw [hpz] at hb; exact hnf hb
            · rw [hsub] at hb; simp [htok] at hb
            · rw [hsub] at hb; simp at hb
          refine ⟨h.nodup, h.noempty, ?_, ?_, ?_, ?_, ?_⟩
          · intro j hj
            simp only [live_withResumes, sub_withResumes] at hj ⊢
            show ((j ∈ s.pauses.flatten → _) ∧ _)
            rw [hlive'] at hj
            by_cases hji : j = i
            · subst hji
              refine ⟨fun hm => absurd hm hnf, fun hf => ?_⟩
              rw [hsub] at hf; simp [htok] at hf
            · simp only [hsub, hji, if_false]
              exact h.excl j hj
          · intro hf; simp only at hf; rw [show (s.setSub i { s.sub i with st := .running }).paused = s.paused from rfl, hp] at hf; cases hf
          · right; exact ⟨w.erase i, hset, hnd.erase i⟩
          · intro _ hre; simp only at hre; rw [hset] at hre; cases hre
          · intro _ w' hw' j hj
            simp only at hw'
            rw [hset] at hw'
            have : w' = w.erase i := by simpa using hw'.symm
            subst this
            simp only [live_withResumes, busy_withResumes] at hj ⊢
            rw [hlive'] at hj
            by_cases hji : j = i
            · subst hji
              constructor
              · intro hm; exact absurd hm (by rw [hnd.mem_erase_iff]; simp)
              · intro hb; exact absurd hb hnb
            · rw [hbusy j hji, List.mem_erase_of_ne hji]
              exact h.p1 hp w hr j hj
        · split at hs
          · rename_i hex
            have hex' : (s.sub i).st = .exited := by simpa using hex
            cases hs
            have hnl : s.live i = false := by simp [S.live, Sub.live, hex']
            refine ⟨h.nodup, h.noempty, h.excl, ?_, ?_, ?_, ?_⟩
            · intro hf; simp only at hf; rw [hp] at hf; cases hf
            · right; exact ⟨w.erase i, hset, hnd.erase i⟩
            · intro _ hre; simp only at hre; rw [hset] at hre; cases hre
            · intro _ w' hw' j hj
              simp only at hw'
              rw [hset] at hw'
              have : w' = w.erase i := by simpa using hw'.symm
              subst this
              have hji : j ≠ i := by
                intro hji; subst hji
                have : s.live j = true := hj
                rw [hnl] at this; cases this
              rw [List.mem_erase_of_ne hji]
              exact h.p1 hp w hr j hj
          · cases hs
    · cases hs
  · cases hs

theorem flatten_set_facts (L : List (List Nat)) (k i : Nat) (rest : List Nat) (hk : L[k]? = some (i :: rest))
    (hnd : L.flatten.Nodup) :
    (∀ j, j ∈ (L.set k rest).flatten → j ∈ L.flatten) ∧ i ∉ (L.set k rest).flatten ∧
    (∀ j, j ∈ L.flatten → j ≠ i → j ∈ (L.set k rest).flatten) ∧ (L.set k rest).flatten.Nodup ∧ i ∈ L.flatten := by
  induction L generalizing k with
  | nil => simp at hk
  | cons x xs ih =>
    cases k with
    | zero =>
      simp only [List.getElem?_cons_zero, Option.some.injEq] at hk
      subst hk
      simp only [List.flatten_cons, List.set_cons_zero, List.cons_append] at hnd ⊢
      rw [List.nodup_cons] at hnd
      refine ⟨fun j hj => List.mem_cons_of_mem _ hj, hnd.1, ?_, hnd.2, List.mem_cons_self⟩
      intro j hj hji
      rcases List.mem_cons.mp hj with hj | hj
      · exact absurd hj hji
      · exact hj
    | succ k' =>
      simp only [List.getElem?_cons_succ] at hk
      simp only [List.flatten_cons, List.set_cons_succ] at hnd ⊢
      rw [List.nodup_append] at hnd
      obtain ⟨hx, hxs, hdis⟩ := hnd
      obtain ⟨h1, h2, h3, h4, h5⟩ := ih k' hk hxs
      refine ⟨?_, ?_, ?_, ?_, List.mem_append_right _ h5⟩
      · intro j hj
        rcases List.mem_append.mp hj with hj | hj
        · exact List.mem_append_left _ hj
        · exact List.mem_append_right _ (h1 j hj)
      · intro hm
        rcases List.mem_append.mp hm with hm | hm
        · exact hdis i hm i h5 rfl
        · exact h2 hm
      · intro j hj hji
        rcases List.mem_append.mp hj with hj | hj
        · exact List.mem_append_left _ hj
        · exact List.mem_append_right _ (h3 j hj hji)
      · refine List.nodup_append.mpr ⟨hx, h4, ?_⟩
        intro a ha b hb
        exact hdis a ha b (h1 b hb)

theorem inv_pauseSend (F : Facts) (s s' : S) (k : Nat) (h : Inv s) (hs : step F s (.pauseSend k) = some s') : Inv s' := by
  simp only [step] at hs
  split at hs
  · rename_i i rest hk
    cases hs
    obtain ⟨f1, f2, f3, f4, f5⟩ := flatten_set_facts s.pauses k i rest hk h.nodup
    have hfl : (dropEmpty (s.pauses.set k rest)).flatten = (s.pauses.set k rest).flatten := flatten_dropEmpty _
    by_cases hl : (s.sub i).live = true
    · -- the signal lands in the subscriber's channel
      simp only [hl, if_true]
      have hlive : s.live i = true := hl
      have hi : i < s.n := live_lt s i hlive
      have hsub : ∀ j, (s.setSub i { s.sub i with token := true }).sub j
          = if j = i then { s.sub i with token := true } else s.sub j := fun j => sub_setSub s i j _ hi
      have hlive' : ∀ j, (s.setSub i { s.sub i with token := true }).live j = s.live j := by
        intro j; simp only [S.live, hsub]
        by_cases hj : j = i
        · subst hj; simp [Sub.live]
        · simp [hj]
      have hnack : (s.sub i).st ≠ .acking := ((h.excl i hlive).1 f5).2
      refine ⟨?_, dropEmpty_noempty _, ?_, ?_, h.res, ?_, ?_⟩
      · show (dropEmpty (s.pauses.set k rest)).flatten.Nodup
        rw [hfl]; exact f4
      · intro j hj
        simp only [live_withPauses, sub_withPauses] at hj ⊢
        rw [hlive'] at hj
        show ((j ∈ (dropEmpty (s.pauses.set k rest)).flatten → _) ∧ _)
        rw [hfl]
        by_cases hji : j = i
        · subst hji
          refine ⟨fun hm => absurd hm f2, fun _ => ?_⟩
          rw [hsub]; simpa using hnack
        · simp only [hsub, hji, if_false]
          exact ⟨fun hm => (h.excl j hj).1 (f1 j hm), (h.excl j hj).2⟩
      · intro hp
        exfalso
        exact (h.unp hp).2 i hlive (Or.inl f5)
      · intro hp hr j hj
        simp only [live_withPauses] at hj
        rw [hlive'] at hj
        have hb := h.p0 hp hr j hj
        by_cases hji : j = i
        · subst hji
          right; left
          show ((s.setSub j { s.sub j with token := true }).sub j).token = true
          rw [hsub]; simp
        · rcases hb with hb | hb | hb
          · left
            show j ∈ (dropEmpty (s.pauses.set k rest)).flatten
            rw [hfl]; exact f3 j hb hji
          · right; left
            show ((s.setSub i { s.sub i with token := true }).sub j).token = true
            rw [hsub]; simp [hji, hb]
          · right; right
            show ((s.setSub i { s.sub i with token := true }).sub j).st = .acking
            rw [hsub]; simp [hji, hb]
      · intro hp w hw j hj
        simp only [live_withPauses] at hj
        rw [hlive'] at hj
        rw [h.p1 hp w hw j hj]
        by_cases hji : j = i
        · subst hji
          constructor
          · intro _; right; left
            show ((s.setSub j { s.sub j with token := true }).sub j).token = true
            rw [hsub]; simp
          · intro _; exact Or.inl f5
        · constructor
          · intro hb
            rcases hb with hb | hb | hb
            · left
              show j ∈ (dropEmpty (s.pauses.set k rest)).flatten
              rw [hfl]; exact f3 j hb hji
            · right; left
              show ((s.setSub i { s.sub i with token := true }).sub j).token = true
              rw [hsub]; simp [hji, hb]
            · right; right
              show ((s.setSub i { s.sub i with token := true }).sub j).st = .acking
              rw [hsub]; simp [hji, hb]
          · intro hb
            rcases hb with hb | hb | hb
            · left
              have : j ∈ (dropEmpty (s.pauses.set k rest)).flatten := hb
              rw [hfl] at this; exact f1 j this
            · right; left
              have : ((s.setSub i { s.sub i with token := true }).sub j).token = true := hb
              rw [hsub] at this; simpa [hji] using this
            · right; right
              have : ((s.setSub i { s.sub i with token := true }).sub j).st = .acking := hb
              rw [hsub] at this; simpa [hji] using this
    · -- the subscriber has exited: the signal is skipped
      simp only [hl, if_false]
      have hnl : s.live i = false := by simpa [S.live] using hl
      have hne : ∀ j, s.live j = true → j ≠ i := by
        intro j hj hji; subst hji; rw [hnl] at hj; cases hj
      refine ⟨?_, dropEmpty_noempty _, ?_, ?_, h.res, ?_, ?_⟩
      · show (dropEmpty (s.pauses.set k rest)).flatten.Nodup
        rw [hfl]; exact f4
      · intro j hj
        simp only [live_withPauses, sub_withPauses] at hj ⊢
        show ((j ∈ (dropEmpty (s.pauses.set k rest)).flatten → _) ∧ _)
        rw [hfl]
        exact ⟨fun hm => (h.excl j hj).1 (f1 j hm), (h.excl j hj).2⟩
      · intro hp
        refine ⟨(h.unp hp).1, ?_⟩
        intro j hj hb
        apply (h.unp hp).2 j hj
        rcases hb with hb | hb | hb
        · left
          have : j ∈ (dropEmpty (s.pauses.set k rest)).flatten := hb
          rw [hfl] at this; exact f1 j this
        · exact Or.inr (Or.inl hb)
        · exact Or.inr (Or.inr hb)
      · intro hp hr j hj
        have hb := h.p0 hp hr j hj
        rcases hb with hb | hb | hb
        · left
          show j ∈ (dropEmpty (s.pauses.set k rest)).flatten
          rw [hfl]; exact f3 j hb (hne j hj)
        · exact Or.inr (Or.inl hb)
        · exact Or.inr (Or.inr hb)
      · intro hp w hw j hj
        rw [h.p1 hp w hw j hj]
        constructor
        · intro hb
          rcases hb with hb | hb | hb
          · left
            show j ∈ (dropEmpty (s.pauses.set k rest)).flatten
            rw [hfl]; exact f3 j hb (hne j hj)
          · exact Or.inr (Or.inl hb)
          · exact Or.inr (Or.inr hb)
        · intro hb
          rcases hb with hb | hb | hb
          · left
            have : j ∈ (dropEmpty (s.pauses.set k rest)).flatten := hb
            rw [hfl] at this; exact f1 j this
          · exact Or.inr (Or.inl hb)
          · exact Or.inr (Or.inr hb)
  · cases hs

/-! #### subscribers that join later (`subscribe`) -/

/-- every subscriber a pause still has to signal is registered -/
def Bnd (s : S) : Prop := ∀ i ∈ s.pauses.flatten, i < s.n

theorem bnd_init (n : Nat) : Bnd (S.init n) := by intro i hi; simp [S.init] at hi

theorem mem_flatten_dropEmpty {l : List (List Nat)} {i : Nat} (h : i ∈ (dropEmpty l).flatten) : i ∈ l.flatten := by
  rw [flatten_dropEmpty] at h; exact h

theorem mem_flatten_set {L : List (List Nat)} {k i : Nat} {x : Nat} {rest : List Nat} (hk : L[k]? = some (x :: rest))
    (h : i ∈ (L.set k rest).flatten) : i ∈ L.flatten := by
  rw [List.mem_flatten] at h ⊢
  obtain ⟨l, hl, hil⟩ := h
  rcases List.mem_or_eq_of_mem_set hl with hl' | hl'
  · exact ⟨l, hl', hil⟩
  · subst hl'
    exact ⟨x :: l, List.mem_of_getElem? hk, List.mem_cons_of_mem _ hil⟩

theorem bnd_step (F : Facts) (s s' : S) (a : Act) (h : Bnd s) (hs : step F s a = some s') : Bnd s' := by
  cases a with
  | pauseCall =>
    simp only [step] at hs
    split at hs
    · cases hs; exact h
    · cases hs
      intro i hi
      have hi := mem_flatten_dropEmpty hi
      rw [List.flatten_append, List.mem_append] at hi
      rcases hi with hi | hi
      · exact h i hi
      · simp at hi; exact live_lt s i ((mem_liveIdx s i).mp hi)
  | resumeCall =>
    simp only [step] at hs
    split at hs
    · cases hs; exact h
    · cases hs; unfold startResume; split <;> exact h
  | stopCall => simp only [step] at hs; cases hs; exact h
  | subscribe =>
    simp only [step] at hs
    split at hs
    · split at hs
      · cases hs; intro i hi; exact Nat.lt_succ_of_lt (h i hi)
      · cases hs
    · cases hs
  | pauseSend k =>
    simp only [step] at hs
    split at hs
    · rename_i i rest hk
      cases hs
      by_cases hl : (s.sub i).live = true
      · simp only [hl, if_true]
        intro j hj
        have hj' : j ∈ (dropEmpty (s.pauses.set k rest)).flatten := by simpa [S.setSub] using hj
        have := h j (mem_flatten_set hk (mem_flatten_dropEmpty hj'))
        simpa [S.setSub] using this
      · simp only [hl, if_false]
        intro j hj
        exact h j (mem_flatten_set hk (mem_flatten_dropEmpty hj))
    · cases hs
  | resumeRecv k i =>
    simp only [step] at hs
    split at hs
    · split at hs
      · split at hs
        · cases hs; intro j hj; simpa [S.setSub] using h j (by simpa [S.setSub] using hj)
        · split at hs
          · cases hs; exact h
          · cases hs
      · cases hs
    · cases hs
  | resumeFinish k =>
    simp only [step] at hs
    split at hs
    · cases hs; exact h
    · cases hs
  | waiterProceed =>
    simp only [step] at hs
    split at hs
    · cases hs; unfold startResume; split <;> exact h
    · cases hs
  | takeToken i =>
    simp only [step] at hs
    split at hs
    · cases hs; intro j hj; simpa [S.setSub] using h j (by simpa [S.setSub] using hj)
    · cases hs
  | exit i =>
    simp only [step] at hs
    split at hs
    · cases hs; intro j hj; simpa [S.setSub] using h j (by simpa [S.setSub] using hj)
    · cases hs

theorem inv_subscribe (F : Facts) (s s' : S) (h : Inv s) (hb : Bnd s) (hs : step F s .subscribe = some s') : Inv s' := by
  simp only [step] at hs
  split at hs
  · split at hs
    · rename_i hF hre
      cases hs
      have hr : s.resumes = [] := by simpa using hre
      -- the state after the step
      generalize hs' : ({ s with n := s.n + 1, subs := fun j => if j = s.n then { st := W.running, token := s.paused } else s.subs j } : S) = t
      have hp : t.paused = s.paused := by subst hs'; rfl
      have hpa : t.pauses = s.pauses := by subst hs'; rfl
      have hre' : t.resumes = s.resumes := by subst hs'; rfl
      have hold : ∀ i, i ≠ s.n → t.sub i = s.sub i := by
        intro i hi; subst hs'
        unfold S.sub
        by_cases h1 : i < s.n
        · have h2 : i < s.n + 1 := by omega
          simp [h1, h2, hi]
        · have h2 : ¬ i < s.n + 1 := by omega
          simp [h1, h2]
      have hnew : t.sub s.n = { st := .running, token := s.paused } := by
        subst hs'; unfold S.sub; simp
      have hnl : s.live s.n = false := by unfold S.live S.sub Sub.live; simp
      have hnf : s.n ∉ s.pauses.flatten := fun hm => Nat.lt_irrefl _ (hb _ hm)
      have hlive : ∀ i, i ≠ s.n → t.live i = s.live i := by intro i hi; unfold S.live; rw [hold i hi]
      have hbusy : ∀ i, i ≠ s.n → (busy t i ↔ busy s i) := by
        intro i hi; unfold busy; rw [hold i hi, hpa]
      have hbn : busy t s.n ↔ s.paused = true := by
        unfold busy; rw [hnew, hpa]; simp [hnf]
      refine ⟨by rw [hpa]; exact h.nodup, by rw [hpa]; exact h.noempty, ?_, ?_, by rw [hre']; exact h.res, ?_, ?_⟩
      · intro i hi
        by_cases hin : i = s.n
        · subst hin
          rw [hnew, hpa]
          exact ⟨fun hm => absurd hm hnf, fun _ => by simp⟩
        · rw [hold i hin, hpa]; exact h.excl i (by rw [← hlive i hin]; exact hi)
      · intro hpf
        rw [hp] at hpf
        refine ⟨by rw [hre']; exact (h.unp hpf).1, ?_⟩
        intro i hi
        by_cases hin : i = s.n
        · subst hin; rw [hbn]; simp [hpf]
        · rw [hbusy i hin]; exact (h.unp hpf).2 i (by rw [← hlive i hin]; exact hi)
      · intro hpt _ i hi
        rw [hp] at hpt
        by_cases hin : i = s.n
        · subst hin; rw [hbn]; exact hpt
        · rw [hbusy i hin]; exact h.p0 hpt hr i (by rw [← hlive i hin]; exact hi)
      · intro _ w hw
        rw [hre', hr] at hw; cases hw
    · cases hs
  · cases hs

/-- every action keeps the invariant -/
theorem inv_step (F : Facts) (hg : guarded F = true) (s s' : S) (a : Act) (h : Inv s) (hb : Bnd s) (hs : step F s a = some s') :
    Inv s' := by
  cases a with
  | pauseCall => exact inv_pauseCall F s s' h hs
  | resumeCall => exact inv_resumeCall F hg s s' h hs
  | stopCall => exact inv_stopCall F s s' h hs
  | subscribe => exact inv_subscribe F s s' h hb hs
  | pauseSend k => exact inv_pauseSend F s s' k h hs
  | resumeRecv k i => exact inv_resumeRecv F s s' k i h hs
  | resumeFinish k => exact inv_resumeFinish F s s' k h hs
  | waiterProceed => exact inv_waiterProceed F hg s s' h hs
  | takeToken i => exact inv_takeToken F s s' i h hs
  | exit i => exact inv_exit F s s' i h hs

/-- states reachable from `n` registered subscribers by any sequence of enabled actions (further workers may subscribe on the way) -/
inductive Reachable (F : Facts) (n : Nat) : S → Prop
  | init : Reachable F n (S.init n)
  | step (s s' : S) (a : Act) : Reachable F n s → step F s a = some s' → Reachable F n s'

theorem reachable_inv_bnd (F : Facts) (hg : guarded F = true) (n : Nat) (s : S) (h : Reachable F n s) : Inv s ∧ Bnd s := by
  induction h with
  | init => exact ⟨inv_init n, bnd_init n⟩
  | step s s' a _ hs ih => exact ⟨inv_step F hg s s' a ih.1 ih.2 hs, bnd_step F s s' a ih.2 hs⟩

theorem reachable_inv (F : Facts) (hg : guarded F = true) (n : Nat) (s : S) (h : Reachable F n s) : Inv s :=
  (reachable_inv_bnd F hg n s h).1

/-- nothing internal can happen any more -/
def Quiescent (F : Facts) (s : S) : Prop := ∀ a, a.internal = true → step F s a = none

/-- **No deadlock.** In a reachable state where nothing more can happen by itself: every `Pause` and
`Resume` that was invoked has returned, a worker waits for resume only while the manager is paused,
and after a stop request every worker has exited. -/
theorem quiescent_facts (F : Facts) (hg : guarded F = true) (hack : ackCancellable F = true) (s : S)
    (h : Inv s) (hq : Quiescent F s) :
    s.pauses = [] ∧ s.resumes = [] ∧ s.waiting = 0 ∧
    (∀ i, (s.sub i).st = .acking → s.paused = true) ∧
    (s.stop = true → ∀ i, i < s.n → (s.sub i).st = .exited) := by
  have hp : s.pauses = [] := by
    cases hps : s.pauses with
    | nil => rfl
    | cons p ps =>
      exfalso
      have hne := h.noempty p (by rw [hps]; exact List.mem_cons_self)
      cases p with
      | nil => exact hne rfl
      | cons i rest =>
        have := hq (.pauseSend 0) rfl
        simp [step, hps] at this
  have hfl : s.pauses.flatten = [] := by rw [hp]; rfl
  have hr : s.resumes = [] := by
    rcases h.res with hr | ⟨w, hr, _⟩
    · exact hr
    · exfalso
      have hpa := paused_of_resumes s h (by rw [hr]; simp)
      cases w with
      | nil =>
        have := hq (.resumeFinish 0) rfl
        simp [step, hr] at this
      | cons i rest =>
        have hrecv := hq (.resumeRecv 0 i) rfl
        simp only [step, hr, List.getElem?_cons_zero, List.mem_cons, true_or, if_true] at hrecv
        -- subscriber i is neither acknowledging nor exited, so it is running …
        have hna : (s.sub i).st ≠ .acking := by
          intro hc; simp [hc] at hrecv
        have hne : (s.sub i).st ≠ .exited := by
          intro hc; simp [hc] at hrecv
        have hrun : (s.sub i).st = .running := by
          cases hst : (s.sub i).st with
          | running => rfl
          | acking => exact absurd hst hna
          | exited => exact absurd hst hne
        have hlive : s.live i = true := by simp [S.live, Sub.live, hrun]
        -- … and still owes an acknowledgement, so a signal must be in its channel
        have hb := (h.p1 hpa (i :: rest) hr i hlive).mp List.mem_cons_self
        rcases hb with hb | hb | hb
        · rw [hfl] at hb; cases hb
        · have := hq (.takeToken i) rfl
          simp [step, hrun, hb] at this
        · exact hna hb
  have hw : s.waiting = 0 := by
    cases hwt : s.waiting with
    | zero => rfl
    | succ m =>
      exfalso
      have := hq .waiterProceed rfl
      simp [step, hg, hr, hwt] at this
  refine ⟨hp, hr, hw, ?_, ?_⟩
  · intro i hacki
    cases hpa : s.paused with
    | true => rfl
    | false =>
      exfalso
      have hlive : s.live i = true := by simp [S.live, Sub.live, hacki]
      exact (h.unp hpa).2 i hlive (Or.inr (Or.inr hacki))
  · intro hstop i hi
    cases hst : (s.sub i).st with
    | exited => rfl
    | running =>
      exfalso
      have := hq (.exit i) rfl
      simp [step, hstop, hi, hst] at this
    | acking =>
      exfalso
      have := hq (.exit i) rfl
      simp [step, hstop, hi, hst, hack] at this

/-- **Resume wakes all.** When a `Resume` that found the pipeline paused returns, every live
subscriber runs and none has a pause signal pending. -/
theorem resume_wakes_all (F : Facts) (s s' : S) (k : Nat) (h : Inv s) (hs : step F s (.resumeFinish k) = some s') :
    s'.paused = false ∧ ∀ i, s'.live i = true → (s'.sub i).st = .running ∧ (s'.sub i).token = false := by
  have hinv := inv_resumeFinish F s s' k h hs
  have hpf : s'.paused = false := by
    simp only [step] at hs
    split at hs
    · cases hs; rfl
    · cases hs
  refine ⟨hpf, ?_⟩
  intro i hi
  have hnb := (hinv.unp hpf).2 i hi
  have hne : (s'.sub i).st ≠ .exited := by
    intro hc; simp [S.live, Sub.live, hc] at hi
  constructor
  · cases hst : (s'.sub i).st with
    | running => rfl
    | acking => exact absurd (Or.inr (Or.inr hst)) hnb
    | exited => exact absurd hst hne
  · cases ht : (s'.sub i).token with
    | false => rfl
    | true => exact absurd (Or.inr (Or.inl ht)) hnb

/-- an unmatched `Resume` (nothing paused, nobody collecting) returns at once and changes nothing -/
theorem resume_unpaused_noop (F : Facts) (hg : guarded F = true) (s : S) (hp : s.paused = false) (hr : s.resumes = []) :
    step F s .resumeCall = some s := by
  simp [step, hg, hr, startResume, hp]

/-- a repeated `Pause` is swallowed -/
theorem pause_paused_noop (F : Facts) (s : S) (hp : s.paused = true) : step F s .pauseCall = some s := by
  simp [step, hp]

end Zeno.Model.Pause
