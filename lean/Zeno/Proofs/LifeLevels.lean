import Zeno.Proofs.Life
/-!
"Embedded resources are fetched at most three levels below the page": in the ranked trees of a seed's life (`Start`), the asset
level of every node — the number of asset edges (`redirects = 0`) on its path from the seed, redirects not counted — is at most 3,
and every redirect chain is at most `max-redirect` long.
-/
namespace Zeno.Model.Life
open Zeno Zeno.Model.Item Zeno.Model.Stages

mutual
/-- (asset level, redirects) of every node, in traversal order -/
def _root_.Zeno.Model.Item.Tree.levelsAndChains (a : Nat) (pst : Option Status) : Tree → List (Nat × Nat)
  | .node i k => (aLevel pst a i, i.redirects) :: k.levelsAndChains (aLevel pst a i) i.st
def _root_.Zeno.Model.Item.Forest.levelsAndChains (a : Nat) (pst : Status) : Forest → List (Nat × Nat)
  | .nil => []
  | .cons t f => t.levelsAndChains a (some pst) ++ f.levelsAndChains a pst
end

mutual
theorem Tree.rk_levels (R a pr : Nat) (pst : Option Status) (t : Tree) (h : t.rk R a pr pst = true) :
    ∀ x ∈ t.levelsAndChains a pst, x.1 ≤ 3 ∧ x.2 ≤ R := by
  match t with
  | .node i k =>
    simp only [Tree.rk, Bool.and_eq_true] at h
    have hn := h.1
    simp only [rkNode, Bool.and_eq_true, decide_eq_true_eq] at hn
    intro x hx
    simp only [Tree.levelsAndChains, List.mem_cons] at hx
    rcases hx with rfl | hx
    · exact ⟨hn.2, hn.1.2⟩
    · exact Forest.rk_levels R _ _ i.st k h.2 x hx
theorem Forest.rk_levels (R a pr : Nat) (pst : Status) (f : Forest) (h : f.rk R a pr pst = true) :
    ∀ x ∈ f.levelsAndChains a pst, x.1 ≤ 3 ∧ x.2 ≤ R := by
  match f with
  | .nil => intro x hx; cases hx
  | .cons t f =>
    simp only [Forest.rk, Bool.and_eq_true] at h
    intro x hx
    simp only [Forest.levelsAndChains, List.mem_append] at hx
    rcases hx with hx | hx
    · exact Tree.rk_levels R a pr (some pst) t h.1 x hx
    · exact Forest.rk_levels R a pr pst f h.2 x hx
end

/-- every tree a pass starts with: at most three asset levels, redirect chains of at most `R` -/
theorem start_levels {R d : Nat} {t : Tree} (h : Start R d t) : ∀ x ∈ t.levelsAndChains 0 none, x.1 ≤ 3 ∧ x.2 ≤ R :=
  Tree.rk_levels R 0 0 none t h.rank

end Zeno.Model.Life
