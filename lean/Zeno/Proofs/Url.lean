import Zeno.Model.Url
/-! Escaping round trip and ordered query re-encoding (core Lean only). -/
set_option linter.unusedSimpArgs false
set_option linter.unnecessarySimpa false
set_option linter.unusedVariables false
namespace Zeno.Model.Url
open Zeno

def ok (F : Facts) : Bool :=
  F.schemes == ["http:", "https:"] && F.rejectedHosts == ["localhost", "127.0.0.1"] && F.requiresDot && F.hashCleared &&
  F.schemeFromProtocol && F.hostFromHostname && F.quotesTrimmed && F.defaultSchemeHttp && F.guardOrder && F.resultIsHref &&
  F.encodeOrder == "ordered" && F.encodeEscapesBoth && F.stringCachedOnce

/-! ### hex digits -/

theorem unhex_hexDigit (d : Nat) (h : d < 16) : unhex (hexDigit d) = some d := by
  have : d = 0 ∨ d = 1 ∨ d = 2 ∨ d = 3 ∨ d = 4 ∨ d = 5 ∨ d = 6 ∨ d = 7 ∨ d = 8 ∨ d = 9 ∨ d = 10 ∨ d = 11 ∨
      d = 12 ∨ d = 13 ∨ d = 14 ∨ d = 15 := by omega
  rcases this with h | h | h | h | h | h | h | h | h | h | h | h | h | h | h | h <;> subst h <;> rfl

/-- what `queryEscape` can emit: an unreserved byte, `+`, `%`, or a hex digit -/
def emitted (c : Nat) : Bool := unreserved c || c == 43 || c == 37 || (48 ≤ c && c ≤ 57) || (65 ≤ c && c ≤ 70)

theorem hexDigit_emitted (d : Nat) (h : d < 16) : emitted (hexDigit d) = true := by
  have : d = 0 ∨ d = 1 ∨ d = 2 ∨ d = 3 ∨ d = 4 ∨ d = 5 ∨ d = 6 ∨ d = 7 ∨ d = 8 ∨ d = 9 ∨ d = 10 ∨ d = 11 ∨
      d = 12 ∨ d = 13 ∨ d = 14 ∨ d = 15 := by omega
  rcases this with h | h | h | h | h | h | h | h | h | h | h | h | h | h | h | h <;> subst h <;> rfl

theorem escape1_emitted (c : Nat) (hc : c < 256) : ∀ x ∈ escape1 c, emitted x = true := by
  intro x hx
  unfold escape1 at hx
  split at hx
  · rename_i hu
    simp only [List.mem_singleton] at hx; subst hx
    simp [emitted, hu]
  · split at hx
    · simp only [List.mem_singleton] at hx; subst hx; rfl
    · simp only [List.mem_cons, List.not_mem_nil, or_false] at hx
      rcases hx with hx | hx | hx
      · subst hx; rfl
      · subst hx; exact hexDigit_emitted _ (by omega)
      · subst hx; exact hexDigit_emitted _ (by omega)

theorem queryEscape_emitted (b : Bytes) (hb : ∀ c ∈ b, c < 256) : ∀ x ∈ queryEscape b, emitted x = true := by
  intro x hx
  simp only [queryEscape, List.mem_flatMap] at hx
  obtain ⟨c, hc, hxc⟩ := hx
  exact escape1_emitted c (hb c hc) x hxc

/-- none of `&`, `;`, `=` is ever emitted -/
theorem emitted_not_sep (c : Nat) (h : emitted c = true) : c ≠ 38 ∧ c ≠ 59 ∧ c ≠ 61 := by
  refine ⟨?_, ?_, ?_⟩ <;> intro hc <;> subst hc <;> simp [emitted, unreserved] at h

/-! ### escape / unescape round trip -/

theorem qu_cons_other (c : Nat) (rest : Bytes) (h37 : c ≠ 37) (h43 : c ≠ 43) :
    queryUnescape (c :: rest) = (queryUnescape rest).map (fun r => c :: r) := by
  match rest with
  | [] => simp [queryUnescape, h37, h43]
  | [h] => simp [queryUnescape, h37, h43]
  | h :: l :: r => rw [queryUnescape.eq_2]; simp only [h37, h43, if_false]

theorem qu_cons_plus (rest : Bytes) : queryUnescape (43 :: rest) = (queryUnescape rest).map (fun r => 32 :: r) := by
  match rest with
  | [] => simp [queryUnescape]
  | [h] => simp [queryUnescape]
  | h :: l :: r => rw [queryUnescape.eq_2]; simp

theorem qu_cons_pct (h l : Nat) (rest : Bytes) :
    queryUnescape (37 :: h :: l :: rest) =
      match unhex h, unhex l with
      | some a, some b => (queryUnescape rest).map (fun r => (a * 16 + b) :: r)
      | _, _ => none := by
  rw [queryUnescape.eq_2]; simp only [if_true]; rfl

theorem unescape_unreserved (c : Nat) (rest : Bytes) (h : unreserved c = true) :
    queryUnescape (c :: rest) = (queryUnescape rest).map (fun r => c :: r) := by
  have h37 : c ≠ 37 := by intro hc; subst hc; simp [unreserved] at h
  have h43 : c ≠ 43 := by intro hc; subst hc; simp [unreserved] at h
  exact qu_cons_other c rest h37 h43

/-- **`QueryUnescape (QueryEscape b) = b`** for every byte string. -/
theorem unescape_escape (b : Bytes) (hb : ∀ c ∈ b, c < 256) : queryUnescape (queryEscape b) = some b := by
  induction b with
  | nil => rfl
  | cons c rest ih =>
    have hc : c < 256 := hb c List.mem_cons_self
    have ih' : queryUnescape (queryEscape rest) = some rest := ih (fun x hx => hb x (List.mem_cons_of_mem _ hx))
    have hsplit : queryEscape (c :: rest) = escape1 c ++ queryEscape rest := by simp [queryEscape]
    rw [hsplit]
    unfold escape1
    split
    · rename_i hu
      simp only [List.singleton_append]
      rw [unescape_unreserved c _ hu, ih']; rfl
    · split
      · rename_i h32
        subst h32
        simp only [List.singleton_append]
        rw [qu_cons_plus, ih']; rfl
      · simp only [List.cons_append, List.nil_append]
        rw [qu_cons_pct, unhex_hexDigit (c / 16) (by omega), unhex_hexDigit (c % 16) (by omega), ih']
        simp only [Option.map_some, Option.some.injEq, List.cons.injEq, and_true]
        omega

/-! ### splitting -/

theorem splitOn_ne_nil (sep : Nat) (b : Bytes) : splitOn sep b ≠ [] := by
  induction b with
  | nil => simp [splitOn]
  | cons c rest ih =>
    unfold splitOn
    split
    · simp
    · split <;> simp

theorem splitOn_no_sep (sep : Nat) (a : Bytes) (h : sep ∉ a) : splitOn sep a = [a] := by
  induction a with
  | nil => rfl
  | cons c rest ih =>
    have hc : c ≠ sep := fun hx => h (hx ▸ List.mem_cons_self)
    have hr : sep ∉ rest := fun hx => h (List.mem_cons_of_mem _ hx)
    unfold splitOn
    simp [hc, ih hr]

theorem splitOn_append (sep : Nat) (a b : Bytes) (h : sep ∉ a) : splitOn sep (a ++ sep :: b) = a :: splitOn sep b := by
  induction a with
  | nil => simp [splitOn]
  | cons c rest ih =>
    have hc : c ≠ sep := fun hx => h (hx ▸ List.mem_cons_self)
    have hr : sep ∉ rest := fun hx => h (List.mem_cons_of_mem _ hx)
    simp only [List.cons_append]
    rw [splitOn]
    simp [hc, ih hr]

theorem splitOn_join (sep : Nat) (segs : List Bytes) (hne : segs ≠ []) (h : ∀ s ∈ segs, sep ∉ s) :
    splitOn sep (join sep segs) = segs := by
  induction segs with
  | nil => exact absurd rfl hne
  | cons x xs ih =>
    cases xs with
    | nil => simp [join, splitOn_no_sep sep x (h x List.mem_cons_self)]
    | cons y ys =>
      simp only [join]
      rw [splitOn_append sep x _ (h x List.mem_cons_self)]
      rw [ih (by simp) (fun s hs => h s (List.mem_cons_of_mem _ hs))]

theorem cut_append (sep : Nat) (a b : Bytes) (h : sep ∉ a) : cut sep (a ++ sep :: b) = (a, b) := by
  induction a with
  | nil => simp [cut]
  | cons c rest ih =>
    have hc : c ≠ sep := fun hx => h (hx ▸ List.mem_cons_self)
    have hr : sep ∉ rest := fun hx => h (List.mem_cons_of_mem _ hx)
    simp [cut, hc, ih hr]

/-! ### ordered parse ∘ encode -/

def WfPair (p : Bytes × Bytes) : Prop := (∀ c ∈ p.1, c < 256) ∧ (∀ c ∈ p.2, c < 256)

theorem not_mem_of_emitted (b : Bytes) (hb : ∀ c ∈ b, c < 256) (s : Nat) (hs : s = 38 ∨ s = 59 ∨ s = 61) :
    s ∉ queryEscape b := by
  intro hm
  have := emitted_not_sep s (queryEscape_emitted b hb s hm)
  rcases hs with h | h | h <;> simp [h] at this

theorem parseSeg_encodePair (p : Bytes × Bytes) (hp : WfPair p) : parseSeg (encodePair p) = some p := by
  obtain ⟨k, v⟩ := p
  obtain ⟨hk, hv⟩ := hp
  simp only at hk hv
  have hne : encodePair (k, v) ≠ [] := by simp [encodePair]
  have h59 : 59 ∉ encodePair (k, v) := by
    simp only [encodePair, List.mem_append, List.mem_singleton, not_or]
    exact ⟨⟨not_mem_of_emitted k hk 59 (by simp), by decide⟩, not_mem_of_emitted v hv 59 (by simp)⟩
  have hcut : cut 61 (encodePair (k, v)) = (queryEscape k, queryEscape v) := by
    simp only [encodePair, List.append_assoc, List.singleton_append]
    exact cut_append 61 _ _ (not_mem_of_emitted k hk 61 (by simp))
  unfold parseSeg
  simp only [hne, h59, if_false, hcut, unescape_escape k hk, unescape_escape v hv]

theorem encodePair_no_amp (p : Bytes × Bytes) (hp : WfPair p) : 38 ∉ encodePair p := by
  obtain ⟨k, v⟩ := p
  simp only [encodePair, List.mem_append, List.mem_singleton, not_or]
  exact ⟨⟨not_mem_of_emitted k hp.1 38 (by simp), by decide⟩, not_mem_of_emitted v hp.2 38 (by simp)⟩

/-- **Well-formed query parameters keep their order and multiplicity**: parsing the re-encoded
query gives back exactly the list of pairs. -/
theorem parse_encode (ps : List (Bytes × Bytes)) (h : ∀ p ∈ ps, WfPair p) : parsePairs (encodePairs ps) = ps := by
  cases ps with
  | nil => simp [parsePairs, encodePairs, join, splitOn, parseSeg]
  | cons p rest =>
    unfold parsePairs encodePairs
    rw [splitOn_join 38 _ (by simp)]
    · rw [List.filterMap_map]
      have : ∀ q ∈ (p :: rest), (parseSeg ∘ encodePair) q = some q := fun q hq => parseSeg_encodePair q (h q hq)
      clear h
      generalize (p :: rest) = l at this
      induction l with
      | nil => rfl
      | cons q qs ih =>
        rw [List.filterMap_cons, this q List.mem_cons_self]
        simp only
        rw [ih (fun x hx => this x (List.mem_cons_of_mem _ hx))]
    · intro s hs
      rw [List.mem_map] at hs
      obtain ⟨q, hq, rfl⟩ := hs
      exact encodePair_no_amp q (h q hq)

theorem unhex_lt (c a : Nat) (h : unhex c = some a) : a < 16 := by
  unfold unhex at h
  split at h
  · simp at h; omega
  · split at h
    · simp at h; omega
    · split at h
      · simp at h; omega
      · cases h

/-- unescaping bytes yields bytes -/
theorem unescape_lt (n : Nat) : ∀ (b r : Bytes), b.length ≤ n → (∀ c ∈ b, c < 256) → queryUnescape b = some r →
    ∀ c ∈ r, c < 256 := by
  induction n with
  | zero =>
    intro b r hl _ h
    have : b = [] := List.eq_nil_of_length_eq_zero (by omega)
    subst this
    simp [queryUnescape] at h; subst h; simp
  | succ n ih =>
    intro b r hl hb h
    cases b with
    | nil => simp [queryUnescape] at h; subst h; simp
    | cons c rest =>
      have hrest : ∀ x ∈ rest, x < 256 := fun x hx => hb x (List.mem_cons_of_mem _ hx)
      by_cases h37 : c = 37
      · subst h37
        match rest, hl, hrest, h with
        | [], _, _, h => simp [queryUnescape] at h
        | [x], _, _, h => simp [queryUnescape] at h
        | x :: y :: r', hl, hrest, h =>
          rw [qu_cons_pct] at h
          cases hx : unhex x with
          | none => simp [hx] at h
          | some a =>
            cases hy : unhex y with
            | none => simp [hx, hy] at h
            | some b' =>
              simp only [hx, hy] at h
              cases hr : queryUnescape r' with
              | none => simp [hr] at h
              | some r'' =>
                simp only [hr, Option.map_some, Option.some.injEq] at h
                subst h
                have := ih r' r'' (by simp at hl; omega) (fun z hz => hrest z (by simp [hz])) hr
                have ha := unhex_lt x a hx
                have hb' := unhex_lt y b' hy
                intro z hz
                rcases List.mem_cons.mp hz with hz | hz
                · omega
                · exact this z hz
      · by_cases h43 : c = 43
        · subst h43
          rw [qu_cons_plus] at h
          cases hr : queryUnescape rest with
          | none => simp [hr] at h
          | some r'' =>
            simp only [hr, Option.map_some, Option.some.injEq] at h
            subst h
            have := ih rest r'' (by simp at hl; omega) hrest hr
            intro z hz
            rcases List.mem_cons.mp hz with hz | hz
            · omega
            · exact this z hz
        · rw [qu_cons_other c rest h37 h43] at h
          cases hr : queryUnescape rest with
          | none => simp [hr] at h
          | some r'' =>
            simp only [hr, Option.map_some, Option.some.injEq] at h
            subst h
            have := ih rest r'' (by simp at hl; omega) hrest hr
            intro z hz
            rcases List.mem_cons.mp hz with hz | hz
            · subst hz; exact hb _ List.mem_cons_self
            · exact this z hz

theorem splitOn_mem_lt (sep : Nat) (b : Bytes) (hb : ∀ c ∈ b, c < 256) : ∀ s ∈ splitOn sep b, ∀ c ∈ s, c < 256 := by
  induction b with
  | nil => intro s hs; simp [splitOn] at hs; subst hs; simp
  | cons x xs ih =>
    have hxs : ∀ c ∈ xs, c < 256 := fun c hc => hb c (List.mem_cons_of_mem _ hc)
    have ih' := ih hxs
    intro s hs
    rw [splitOn] at hs
    split at hs
    · rcases List.mem_cons.mp hs with hs | hs
      · subst hs; simp
      · exact ih' s hs
    · split at hs
      · simp only [List.mem_singleton] at hs; subst hs
        intro c hc; simp at hc; subst hc; exact hb _ List.mem_cons_self
      · rename_i y ys hy
        rcases List.mem_cons.mp hs with hs | hs
        · subst hs
          intro c hc
          rcases List.mem_cons.mp hc with hc | hc
          · subst hc; exact hb _ List.mem_cons_self
          · exact ih' y (by rw [hy]; exact List.mem_cons_self) c hc
        · exact ih' s (by rw [hy]; exact List.mem_cons_of_mem _ hs)

theorem cut_lt (sep : Nat) (b : Bytes) (hb : ∀ c ∈ b, c < 256) :
    (∀ c ∈ (cut sep b).1, c < 256) ∧ (∀ c ∈ (cut sep b).2, c < 256) := by
  induction b with
  | nil => simp [cut]
  | cons x xs ih =>
    have hxs : ∀ c ∈ xs, c < 256 := fun c hc => hb c (List.mem_cons_of_mem _ hc)
    have := ih hxs
    simp only [cut]
    split
    · exact ⟨by simp, hxs⟩
    · refine ⟨?_, this.2⟩
      intro c hc
      rcases List.mem_cons.mp hc with hc | hc
      · subst hc; exact hb _ List.mem_cons_self
      · exact this.1 c hc

theorem parsePairs_wf (q : Bytes) (hq : ∀ c ∈ q, c < 256) : ∀ p ∈ parsePairs q, WfPair p := by
  intro p hp
  simp only [parsePairs, List.mem_filterMap] at hp
  obtain ⟨seg, hseg, hps⟩ := hp
  have hsl := splitOn_mem_lt 38 q hq seg hseg
  unfold parseSeg at hps
  split at hps
  · cases hps
  · split at hps
    · cases hps
    · have hc := cut_lt 61 seg hsl
      cases hk : queryUnescape (cut 61 seg).1 with
      | none => simp [hk] at hps
      | some k' =>
        cases hv : queryUnescape (cut 61 seg).2 with
        | none => simp [hk, hv] at hps
        | some v' =>
          simp [hk, hv] at hps
          subst hps
          exact ⟨unescape_lt _ _ _ (Nat.le_refl _) hc.1 hk, unescape_lt _ _ _ (Nat.le_refl _) hc.2 hv⟩

/-- **Canonicalising the query twice changes nothing.** -/
theorem canon_idem (q : Bytes) (hq : ∀ c ∈ q, c < 256) : canonQuery (canonQuery q) = canonQuery q := by
  unfold canonQuery
  rw [parse_encode _ (parsePairs_wf q hq)]

/-- the guards accept only http/https, dotted, non-loopback hosts -/
theorem guard_ok (F : Facts) (hF : ok F = true) (protocol hostname : String) (h : guard F protocol hostname = .ok) :
    (protocol = "http:" ∨ protocol = "https:") ∧ hostname ≠ "localhost" ∧ hostname ≠ "127.0.0.1" ∧
    '.' ∈ hostname.toList := by
  simp only [ok, Bool.and_eq_true, beq_iff_eq] at hF
  have hs : F.schemes = ["http:", "https:"] := hF.1.1.1.1.1.1.1.1.1.1.1.1
  have hr : F.rejectedHosts = ["localhost", "127.0.0.1"] := hF.1.1.1.1.1.1.1.1.1.1.1.2
  have hd : F.requiresDot = true := hF.1.1.1.1.1.1.1.1.1.1.2
  unfold guard at h
  split at h
  · cases h
  · rename_i h1
    split at h
    · cases h
    · rename_i h2
      split at h
      · cases h
      · rename_i h3
        rw [hs] at h1; rw [hr] at h2; rw [hd] at h3
        simp at h1 h2 h3
        exact ⟨Decidable.or_iff_not_imp_left.mpr h1, h2.1, h2.2, h3⟩

end Zeno.Model.Url
