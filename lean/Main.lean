import Driver.Disk
import Driver.Reactor
import Driver.Item
import Driver.RateLimiter
import Driver.Stats
import Driver.Pause
import Driver.Url
import Driver.Queue
import Driver.Stage
import Driver.Pipeline
import Driver.Extract
/-! zdriver: `zdriver <domain> [--base]` reads one JSON object per line, prints one result line each. -/
open Lean

/-- a domain is a state type packed with its step function -/
structure Domain where
  σ : Type
  init : σ
  step : Bool → σ → Json → Except String (σ × String)

def stateless (f : Bool → Json → Except String String) : Domain :=
  { σ := Unit, init := (), step := fun b _ j => (f b j).map (fun s => ((), s)) }

def domains : List (String × Domain) := [
  ("disk", stateless Driver.Disk.step),
  ("pause", { σ := Driver.Pause.DS, init := {}, step := Driver.Pause.stepD }),
  ("stage", { σ := Driver.Stage.St, init := {}, step := Driver.Stage.step }),
  ("queue", { σ := List Zeno.Model.Queue.Row, init := [], step := Driver.Queue.step }),
  ("url", stateless Driver.Url.step),
  ("stats", stateless Driver.Stats.step),
  ("diskwatch", stateless Driver.Disk.stepWatch),
  ("item", { σ := Zeno.Model.Item.Tree, init := Driver.Item.init, step := Driver.Item.step }),
  ("rl", { σ := Driver.RateLimiter.St, init := {}, step := Driver.RateLimiter.step }),
  ("extract", { σ := Unit, init := (), step := Driver.Extract.step }),
  ("pipeline", { σ := Unit, init := (), step := Driver.Pipeline.step }),
  ("reactor", { σ := Zeno.Model.Reactor.R, init := Zeno.Model.Reactor.R.init, step := Driver.Reactor.step })
]

partial def loop (d : Domain) (base : Bool) (h out : IO.FS.Stream) (st : d.σ) : IO Unit := do
  let line ← h.getLine
  if line.isEmpty then return ()
  let l := line.trimAsciiEnd.toString
  if l.isEmpty then
    out.putStrLn ""
    loop d base h out st
  else
    match Json.parse l with
    | .error e => out.putStrLn s!"driver-error parse {e}"; loop d base h out st
    | .ok j => match d.step base st j with
      | .ok (st', s) => out.putStrLn s; loop d base h out st'
      | .error e => out.putStrLn s!"driver-error {e}"; loop d base h out st

def main (args : List String) : IO UInt32 := do
  match args with
  | dom :: rest =>
    let base := rest.contains "--base"
    match domains.lookup dom with
    | none => IO.eprintln s!"unknown domain {dom}"; return 2
    | some d =>
      let out ← IO.getStdout
      loop d base (← IO.getStdin) out d.init
      out.flush
      return 0
  | [] => IO.eprintln "usage: zdriver <domain> [--base]"; return 2
