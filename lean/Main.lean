import Driver.Disk
/-! zdriver: `zdriver <domain> [--base]` reads one JSON object per line, prints one result line each. -/
open Lean

abbrev Handler := Bool → Json → Except String String

def handlers : List (String × Handler) := [
  ("disk", Driver.Disk.step)
]

partial def loop (h : IO.FS.Stream) (out : IO.FS.Stream) (f : Json → Except String String) : IO Unit := do
  let line ← h.getLine
  if line.isEmpty then return ()
  let l := line.trimAsciiEnd.toString
  if l.isEmpty then
    out.putStrLn ""
  else
    match Json.parse l with
    | .error e => out.putStrLn s!"driver-error parse {e}"
    | .ok j => match f j with
      | .ok s => out.putStrLn s
      | .error e => out.putStrLn s!"driver-error {e}"
  loop h out f

def main (args : List String) : IO UInt32 := do
  match args with
  | dom :: rest =>
    let base := rest.contains "--base"
    match handlers.lookup dom with
    | none => IO.eprintln s!"unknown domain {dom}"; return 2
    | some f =>
      let out ← IO.getStdout
      loop (← IO.getStdin) out (f base)
      out.flush
      return 0
  | [] => IO.eprintln "usage: zdriver <domain> [--base]"; return 2
