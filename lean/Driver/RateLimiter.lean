import Driver.Util
import Zeno.Model.RateLimiter
import Zeno.Gen.RateLimiter
namespace Driver.RateLimiter
open Lean Zeno Zeno.Model.RateLimiter

structure St where
  b : TB := TB.new 1 1 0
  tbl : List MB := []
  maxB : Nat := 0

def showTB (b : TB) : String :=
  s!"tokens={showRat b.tokens} rate={showRat b.rate} pen={showRat b.pen} last={showRat b.last} fails={b.fails}"

def sortStrs (l : List String) : List String := (l.toArray.qsort (· < ·)).toList

def step (base : Bool) (st : St) (j : Json) : Except String (St × String) := do
  let F := Zeno.Model.RateLimiter.Facts.modelled (if base then Zeno.Base.RateLimiter.facts else Zeno.Gen.RateLimiter.facts)
  let op ← str j "op"
  match op with
  | "new" =>
    let cap ← rat j "cap"
    let rate ← rat j "rate"
    let t ← rat j "t"
    pure ({ st with b := TB.new cap rate t }, "ok")
  | "try" | "tryreal" =>
    let t ← rat j "t"
    let (b', rel) := tryAcquire F st.b t
    pure ({ st with b := b' }, (if rel then "release " else "wait ") ++ showTB b')
  | "fail" =>
    let t ← rat j "t"
    let code ← nat j "code"
    let b' := onFailure F st.b t code
    pure ({ st with b := b' }, "- " ++ showTB b')
  | "ok" =>
    let t ← rat j "t"
    let b' := onSuccess F st.b t
    pure ({ st with b := b' }, "- " ++ showTB b')
  | "mgr" => pure ({ st with tbl := [], maxB := ← nat j "max" }, "ok")
  | "get" | "mfail" | "msucc" =>
    let host ← str j "host"
    let tbl := getBucket F st.maxB st.tbl host
    pure ({ st with tbl := tbl }, s!"size={tbl.length}")
  | "hosts" =>
    pure (st, ",".intercalate (sortStrs (st.tbl.map (fun e => s!"{e.host}:{e.usage}"))))
  | _ => throw s!"bad op {op}"

end Driver.RateLimiter
