import Driver.Util
import Zeno.Model.Url
import Zeno.Model.Resolve
import Zeno.Gen.Url
namespace Driver.Url
open Lean Zeno Zeno.Model.Url

def hexVal (c : Char) : Option Nat :=
  if '0' ≤ c && c ≤ '9' then some (c.toNat - 48)
  else if 'a' ≤ c && c ≤ 'f' then some (c.toNat - 87)
  else if 'A' ≤ c && c ≤ 'F' then some (c.toNat - 55)
  else none

def unhexStr (s : String) : Except String (List Nat) :=
  let rec go : List Char → Except String (List Nat)
    | [] => pure []
    | a :: b :: rest => match hexVal a, hexVal b with
      | some x, some y => do pure ((x * 16 + y) :: (← go rest))
      | _, _ => throw "bad hex"
    | _ => throw "odd hex"
  go s.toList

def hexStr (b : List Nat) : String :=
  let d (n : Nat) : Char := if n < 10 then Char.ofNat (48 + n) else Char.ofNat (87 + n)
  String.mk (b.flatMap (fun c => [d (c / 16), d (c % 16)]))

def step (base : Bool) (j : Json) : Except String String := do
  let F := if base then Zeno.Base.Url.facts else Zeno.Gen.Url.facts
  let op ← str j "op"
  match op with
  | "query" =>
    let q ← unhexStr (← str j "qhex")
    -- with a map-ordered encoder the output is one of several strings: the model reports the
    -- in-order one and says so
    pure s!"q={hexStr (canonQuery q)} det={if F.encodeOrder == "ordered" then "1" else "any"}"
  | "escape" =>
    let b ← unhexStr (← str j "hex")
    let e := queryEscape b
    match queryUnescape e with
    | some back => pure s!"esc={hexStr e} back={hexStr back}"
    | none => pure s!"esc={hexStr e} back=!"
  | "unescape" =>
    let b ← unhexStr (← str j "hex")
    match queryUnescape b with
    | some back => pure s!"back={hexStr back}"
    | none => pure "back=!"
  | "guard" =>
    match guard F (← str j "protocol") (← str j "host") with
    | .ok => pure "ok"
    | .unsupportedScheme => pure "err:unsupported-scheme"
    | .unsupportedHost => pure "err:unsupported-host"
  | "resolve" =>
    -- the reference resolver of the URL standard on (page, reference); the result travels hex-encoded
    let r := Zeno.Model.Resolve.resolveText (← str j "parent") (← str j "raw")
    pure s!"resolved={hexStr (r.toUTF8.toList.map (·.toNat))}"
  | _ => throw s!"bad op {op}"

end Driver.Url
