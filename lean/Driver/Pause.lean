import Driver.Util
import Zeno.Model.Pause
import Zeno.Gen.Pause
namespace Driver.Pause
open Lean Zeno Zeno.Model.Pause

def showW : W → String | .running => "run" | .acking => "ack" | .exited => "exit"

def showS (s : S) : String :=
  s!"paused={s.paused} workers={",".intercalate ((List.range s.n).map (fun i => showW (s.subs i).st))} pending={s.pendingCalls}"

def step (base : Bool) (s : S) (j : Json) : Except String (S × String) := do
  let F := if base then Zeno.Base.Pause.facts else Zeno.Gen.Pause.facts
  let op ← str j "op"
  let fuel := 10000
  match op with
  | "init" => let s' := S.init (← nat j "n"); pure (s', showS s')
  | "pause" =>
    match Model.Pause.step F s .pauseCall with
    | some s' => let s'' := settle F fuel s'; pure (s'', showS s'')
    | none => throw "pause not enabled"
  | "resume" =>
    match Model.Pause.step F s .resumeCall with
    | some s' => let s'' := settle F fuel s'; pure (s'', showS s'')
    | none => throw "resume not enabled"
  | "stop" =>
    match Model.Pause.step F s .stopCall with
    | some s' => let s'' := settle F fuel s'; pure (s'', showS s'')
    | none => throw "stop not enabled"
  | _ => throw s!"bad op {op}"

end Driver.Pause
