import Driver.Util
import Zeno.Model.Pause
import Zeno.Gen.Pause
namespace Driver.Pause
open Lean Zeno Zeno.Model.Pause

def showW : W → String | .running => "run" | .acking => "ack" | .exited => "exit"

def showS (s : S) : String :=
  s!"paused={s.paused} workers={",".intercalate ((List.range s.n).map (fun i => showW (s.subs i).st))} pending={s.pendingCalls}"

/-- driver state: the model state and the workers that are busy with a seed (they do not look at their pause signal) -/
structure DS where
  s : S := {}
  busy : List Nat := []

/-- internal steps until nothing more can happen, except that a busy worker does not take its pause signal -/
def settleBusy (F : Facts) (busy : List Nat) : Nat → S → S
  | 0, s => s
  | n + 1, s =>
    match (enabled F s).filter (fun a => match a with | .takeToken i => !busy.contains i | _ => true) with
    | [] => s
    | a :: _ => match Model.Pause.step F s a with
      | some s' => settleBusy F busy n s'
      | none => s

/-- calls still pending when every worker that can move has moved -/
def showDS (d : DS) : String := showS d.s

def stepD (base : Bool) (d : DS) (j : Json) : Except String (DS × String) := do
  let F := if base then Zeno.Base.Pause.facts else Zeno.Gen.Pause.facts
  let op ← str j "op"
  let fuel := 10000
  let call (a : Act) (what : String) : Except String (DS × String) :=
    match Model.Pause.step F d.s a with
    | some s' => let s'' := settleBusy F d.busy fuel s'; pure ({ d with s := s'' }, showS s'')
    | none => throw s!"{what} not enabled"
  match op with
  | "init" => let s' := S.init (← nat j "n"); pure ({ s := s', busy := [] }, showS s')
  | "pause" => call .pauseCall "pause"
  | "resume" => call .resumeCall "resume"
  | "stop" => call .stopCall "stop"
  | "subscribe" => call .subscribe "subscribe"
  | "busy" => let i ← nat j "i"; let d' := { d with busy := i :: d.busy }; pure (d', showS d'.s)
  | "free" =>
    let i ← nat j "i"
    let b := d.busy.filter (· != i)
    let s'' := settleBusy F b fuel d.s
    pure ({ s := s'', busy := b }, showS s'')
  | _ => throw s!"bad op {op}"

def step (base : Bool) (s : S) (j : Json) : Except String (S × String) := do
  let F := if base then Zeno.Base.Pause.facts else Zeno.Gen.Pause.facts
  let op ← str j "op"
  let fuel := 10000
  match op with
  | "init" => let s' := S.init (← nat j "n"); pure (s', showS s')
  | "pause" =>
    match Model.Pause.step F s .pauseCall with
    | some s' => let s'' := settle F fuel s'; pure (s'', showS s'')
    | none => throw "pause not enabled"
  | "resume" =>
    match Model.Pause.step F s .resumeCall with
    | some s' => let s'' := settle F fuel s'; pure (s'', showS s'')
    | none => throw "resume not enabled"
  | "stop" =>
    match Model.Pause.step F s .stopCall with
    | some s' => let s'' := settle F fuel s'; pure (s'', showS s'')
    | none => throw "stop not enabled"
  | _ => throw s!"bad op {op}"

end Driver.Pause
