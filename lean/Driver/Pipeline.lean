import Driver.Util
import Driver.Item
import Zeno.Model.Pipeline
import Zeno.Gen.Pipeline
import Zeno.Gen.Item
namespace Driver.Pipeline
open Lean Zeno Zeno.Model.Item Zeno.Model.Stages Zeno.Model.Pipeline

def applyUpdates (t : Tree) (u : List (String × Status)) : Tree := u.foldl (fun t p => t.setStatus p.1 p.2) t

def parseUpdates (j : Json) : List (List (String × Status)) :=
  match j.getObjVal? "updates" with
  | .ok (.arr a) => a.toList.map (fun o => match o with
      | .obj kvs => kvs.toList.filterMap (fun (k, v) => do
          let s ← v.getStr?.toOption
          let st ← Status.ofName? s
          pure (k, st))
      | _ => [])
  | _ => []

/-- one seed through the model: accept, then for each pass the three stages and the finisher -/
def simulate (P : PF) (I : IF) (id : String) (t : Tree) (updates : List (List (String × Status))) (freezeAt : Option Nat) : State × Tree :=
  let s0 := step P I {} (.accept id t)
  let rec go (fuel : Nat) (k : Nat) (s : State) (last : Tree) : State × Tree :=
    match fuel with
    | 0 => (s, last)
    | fuel + 1 =>
      match s.items.find? (fun it => it.id == id) with
      | none => (s, last)
      | some it =>
        if k > updates.length then (s, last) else
        let t' := if k == 0 then it.tree else applyUpdates it.tree (updates.getD (k - 1) [])
        let fz : List Ev := if freezeAt == some k then [.freeze] else []
        let s1 := ([Ev.advance id t', .advance id t', .advance id t', .advance id t'] ++ fz ++ [Ev.finish id]).foldl (step P I) s
        go fuel (k + 1) s1 t'
  go (updates.length + 2) 0 s0 t

def step (base : Bool) (_ : Unit) (j : Json) : Except String (Unit × String) := do
  let P := if base then Zeno.Base.Pipeline.facts else Zeno.Gen.Pipeline.facts
  let I := if base then Zeno.Base.Item.facts else Zeno.Gen.Item.facts
  let op ← str j "op"
  match op with
  | "start" => pure ((), "ok")
  | "close" => pure ((), "ok")
  | "seeds" =>
    let arr ← (← j.getObjVal? "seeds").getArr?
    let rows ← arr.toList.mapM (fun sj => do
      let t ← Driver.Item.parseTree (← sj.getObjVal? "tree")
      let id := t.info.id
      let fz : Option Nat := match j.getObjVal? "freezeAtPass" with | .ok v => v.getNat?.toOption | _ => none
      let (s, last) := simulate P I id t (parseUpdates sj) fz
      let tracked := (ids s).contains id || s.parked.contains id
      let tree := match s.items.find? (fun it => it.id == id) with
        | some it => it.tree
        | none => match s.acks.find? (fun a => a.1 == id) with
          | some a => a.2
          | none => if s.parked.contains id then (finisher I last).1 else t    -- refused by the frozen reactor: marked, not fed back
      let passes := 1 + s.passes.count id
      pure (id, s!"{id} passes={passes} acks={(s.acks.map Prod.fst).count id} produced={s.produced.count id} tracked={tracked} {Driver.Item.showTree tree}"))
    let sorted := rows.toArray.qsort (fun a b => a.1 < b.1) |>.toList
    pure ((), " ; ".intercalate (sorted.map (·.2)))
  | _ => throw s!"bad op {op}"

end Driver.Pipeline
