import Driver.Util
import Zeno.Model.Stats
import Zeno.Gen.Stats
namespace Driver.Stats
open Lean Zeno Zeno.Model.Stats

/-- code of one textual call on the metric it addresses: (metric key, instrs) -/
def callCode (F : Facts) (c : String) : Option (String × List Instr) :=
  match c.splitOn ":" with
  | ["u"] => some ("urls", RateCall.code F (.incr 1))
  | ["ug"] => some ("urls", RateCall.code F .get)
  | ["ur"] => some ("urls", RateCall.code F .reset)
  | ["s"] => some ("seeds", RateCall.code F (.incr 1))
  | ["sg"] => some ("seeds", RateCall.code F .get)
  | ["h", k] => some ("http:" ++ k, RateCall.code F (.incr 1))
  | ["hg", k] => some ("http:" ++ k, RateCall.code F .get)
  | ["m", v] => some ("mean", MeanCall.code F (.add (v.toNat?.getD 0)))
  | ["mg"] => some ("mean", MeanCall.code F .get)
  | ["g+", w] => some ("gauge:" ++ w, CounterCall.code F (.incr 1))
  | ["g-", w] => some ("gauge:" ++ w, CounterCall.code F (.decr 1))
  | ["gg", w] => some ("gauge:" ++ w, CounterCall.code F .get)
  | _ => none

def sortStrs (l : List String) : List String := (l.toArray.qsort (· < ·)).toList

/-- by the adds-commute theorem the final value of every add-only cell is schedule independent:
the driver runs the goroutines one after the other -/
def burst (F : Facts) (gs : List (List String)) : Except String String := do
  let mut per : List (String × List Instr) := []
  for g in gs do
    for c in g do
      match callCode F c with
      | none => throw s!"bad call {c}"
      | some (k, code) =>
        per := match per.find? (·.1 == k) with
          | some _ => per.map (fun (k', cd) => if k' == k then (k', cd ++ code) else (k', cd))
          | none => per ++ [(k, code)]
  let fin := per.map (fun (k, code) => (k, runSeq (fun _ => 0) code))
  let get (k cell : String) : Nat := match fin.find? (·.1 == k) with | some (_, cells) => cells cell | none => 0
  let http := sortStrs ((fin.filter (fun (k, _) => k.startsWith "http:")).map (fun (k, cells) => s!"{k.drop 5}={cells "total"}"))
  let gauges := ["pre", "arch", "post"].map (fun w => s!"{w}={get ("gauge:" ++ w) "count"}")
  pure s!"urls={get "urls" "total"} seeds={get "seeds" "total"} http={",".intercalate http} mean={get "mean" "count"}/{get "mean" "sum"} gauges={",".intercalate gauges}"

def step (base : Bool) (j : Json) : Except String String := do
  let F := if base then Zeno.Base.Stats.facts else Zeno.Gen.Stats.facts
  let gs ← arr j "goroutines"
  let gs ← gs.toList.mapM (fun g => do
    let a ← g.getArr?
    a.toList.mapM (fun c => c.getStr?))
  burst F gs

end Driver.Stats
