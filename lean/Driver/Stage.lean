import Driver.Util
import Driver.Url
import Zeno.Model.Stages
import Zeno.Gen.Stages
import Zeno.Gen.Item
import Zeno.Gen.Archiver
import Zeno.Model.Warc
namespace Driver.Stage
open Lean Zeno Zeno.Model.Item Zeno.Model.Stages

structure St where
  cfg : Cfg := {}
  seen : Seen := []
  tree : Tree := .node { id := "", url := "", st := .fresh } .nil

def hx (s : String) : String := Driver.Url.hexStr (s.toUTF8.toList.map (·.toNat))

mutual
partial def dump : Tree → String
  | .node i k =>
    s!"{i.id}|{hx i.raw}|{hx i.url}|{i.st.name}|{i.hops}|{i.redirects}|{if i.req then 1 else 0}|{if i.body then 1 else 0}[{dumpF k}]"
partial def dumpF : Forest → String
  | .nil => ""
  | .cons t .nil => dump t
  | .cons t f => dump t ++ "," ++ dumpF f
end

def strs (j : Json) (k : String) : List String :=
  match j.getObjVal? k with
  | .ok (.arr a) => a.toList.filterMap (fun e => e.getStr?.toOption)
  | _ => []

def objD (j : Json) (k : String) : Json := match j.getObjVal? k with | .ok v => v | .error _ => Json.mkObj []

def step (base : Bool) (st : St) (j : Json) : Except String (St × String) := do
  let S := if base then Zeno.Base.Stages.facts else Zeno.Gen.Stages.facts
  let I := if base then Zeno.Base.Item.facts else Zeno.Gen.Item.facts
  let op ← str j "op"
  match op with
  | "cfg" =>
    let cfg : Cfg := {
      includeHosts := strs j "includeHosts", includeStrings := strs j "includeStrings",
      excludeHosts := strs j "excludeHosts", excludeStrings := strs j "excludeStrings",
      regexExcluded := strs j "regexExcluded", disableAssets := boolD j "disableAssets" false,
      domainsCrawl := !(strs j "domainsCrawl").isEmpty, dcMatch := strs j "dcMatch",
      maxHops := natD j "maxHops" 0, maxRedirect := natD j "maxRedirect" 20,
      useSeencheck := !(boolD j "disableSeencheck" false), useHQ := boolD j "useHQ" false }
    let seen := if boolD j "resetSeen" true then (strs j "hqSeen").map (fun v => (v, false)) else st.seen
    pure ({ st with cfg := cfg, seen := seen }, "ok")
  | "seed" =>
    let u ← str j "url"
    let t : Tree := .node { id := ← str j "id", url := u, raw := u, st := .fresh, hops := natD j "hops" 0,
                            via := (strD j "via" "") != "" } .nil
    pure ({ st with tree := t }, dump t)
  | "pre" =>
    let nj := objD j "norm"
    let norm (id : String) : Option NormRes :=
      match nj.getObjVal? id with
      | .ok (.obj _) =>
        let v := objD nj id
        some { canon := strD v "canon" "", host := strD v "host" "", path := strD v "path" "", href := strD v "href" "" }
      | _ => none
    let (t', seen', out) := preprocess S I st.cfg norm st.seen st.tree
    let sent := if st.cfg.useHQ then " sent=" ++ ",".intercalate ((preSent S I st.cfg norm st.tree).map hx) else ""
    match out with
    | .ok => pure ({ st with tree := t', seen := seen' }, dump t' ++ sent)
    | .panic => pure (st, "panic")
    | .crash => pure (st, "crash")
  | "arch" =>
    let oj := objD j "outcomes"
    let srv (id : String) : Option Outcome :=
      match oj.getObjVal? id with
      | .ok (.obj _) =>
        let v := objD oj id
        some { fail := boolD v "fail" false, status := natD v "status" 200, loc := strD v "location" "",
               html := boolD v "html" false, body := boolD v "kept" false }
      | _ => none
    let t' := archive srv st.tree
    pure ({ st with tree := t' }, dump t')
  | "post" =>
    let ej := objD j "extract"
    let ex (id : String) : Extract :=
      let v := objD ej id
      let assets := match v.getObjVal? "assets" with
        | .ok (.arr a) => a.toList.filterMap (fun e => match e with
            | .arr p => if p.size == 2 then (do pure ((← p[0]!.getStr?.toOption), (← p[1]!.getStr?.toOption))) else none
            | _ => none)
        | _ => []
      { assets := assets, assetOutlinks := strs v "assetOutlinks", outlinks := strs v "outlinks" }
    let (t', outs) := postprocess S st.cfg ex st.tree
    let o := ",".intercalate (outs.map (fun o => s!"{hx o.raw}|{o.hops}|{hx o.via}"))
    pure ({ st with tree := t' }, s!"{dump t'} outlinks={o} openBodies=0")
  | "fin" =>
    let (t', a) := finisher I st.tree
    let name := match a with | .produce => "produce" | .feedback => "feedback" | .finish => "finish"
    pure ({ st with tree := t' }, s!"{name} {dump t'}")
  | "check" =>
    match st.tree.check I none with
    | none => pure (st, "ok")
    | some (id, b) => pure (st, s!"bad {id} {b.name}")
  | "depths" =>
    pure (st, ",".intercalate ((st.tree.depths 0 0 true).map (fun (id, d, r) => s!"{id}:{d}:{r}")))
  | "visit" =>
    -- one visit of a URL through the retry loop: {"maxRetry":n,"script":["reset",503,"cf",200,...]} (the last entry repeats)
    let A := if base then Zeno.Base.Archiver.facts else Zeno.Gen.Archiver.facts
    let script : List Zeno.Model.Warc.Attempt := match j.getObjVal? "script" with
      | .ok (.arr a) => a.toList.map (fun e => match e with
          | .str "reset" => Zeno.Model.Warc.Attempt.netErr
          | .str "cf" => .resp 403 true
          | .num n => .resp n.mantissa.toNat false
          | _ => .netErr)
      | _ => []
    let site (n : Nat) : Zeno.Model.Warc.Attempt := script.getD n (script.getLastD .netErr)
    let (n, e) := Zeno.Model.Warc.visit A (natD j "maxRetry" 0) site
    let es := match e with | .failed => "failed" | .ok s => s!"ok:{s}" | .fellThrough => "fell-through"
    pure (st, s!"requests={n} end={es}")
  | "decide" =>
    -- the archiver's tables for one response: {"status":n,"cf":bool,"discard":[...]}
    let A := if base then Zeno.Base.Archiver.facts else Zeno.Gen.Archiver.facts
    let dl : List Nat := match j.getObjVal? "discard" with
      | .ok (.arr a) => a.toList.filterMap (fun e => e.getNat?.toOption)
      | _ => []
    let stt := natD j "status" 200
    let cf := boolD j "cf" false
    pure (st, s!"discarded={Zeno.Model.Warc.discarded A stt cf dl} retried={Zeno.Model.Warc.retried A stt cf}")
  | "close" => pure (st, "ok")
  | _ => throw s!"bad op {op}"

end Driver.Stage
