import Driver.Util
import Zeno.Model.Disk
import Zeno.Gen.Disk
namespace Driver.Disk
open Lean Zeno

def step (base : Bool) (j : Json) : Except String String := do
  let F := if base then Zeno.Base.Disk.facts else Zeno.Gen.Disk.facts
  -- the command-line path: what the configuration holds when the operator gives `givenq`
  if let some _ := (j.getObjVal? "givenq").toOption then
    let v ← rat j "givenq"
    let c := Model.Disk.configured F (some v)
    return s!"{c.num}/{c.den}"
  let total ← nat j "total"
  let free ← nat j "free"
  let msr ← rat j "msrq"
  match Model.Disk.refuse F total free msr with
  | none => pure "overflow"
  | some true => pure "refuse"
  | some false => pure "accept"

def stepWatch (base : Bool) (j : Json) : Except String String := do
  let F := if base then Zeno.Base.Disk.facts else Zeno.Gen.Disk.facts
  let lows ← arr j "lows"
  let lows := lows.toList.map (fun v => match v with | .bool b => b | _ => false)
  let ps := Model.Disk.watch F lows
  -- the start-up check refuses exactly when the observation is `low`
  let out := (lows.zip ps).map (fun (low, p) => (if p then "paused" else "run") ++ (if low then "+refuse-start" else ""))
  pure (",".intercalate out)

end Driver.Disk
