import Driver.Util
import Zeno.Model.Disk
import Zeno.Gen.Disk
namespace Driver.Disk
open Lean Zeno

def step (base : Bool) (j : Json) : Except String String := do
  let F := if base then Zeno.Base.Disk.facts else Zeno.Gen.Disk.facts
  let total ← nat j "total"
  let free ← nat j "free"
  let msr ← rat j "msrq"
  match Model.Disk.refuse F total free msr with
  | none => pure "overflow"
  | some true => pure "refuse"
  | some false => pure "accept"

end Driver.Disk
