import Driver.Util
import Zeno.Model.Extract
import Zeno.Gen.Extractors
import Zeno.Model.Html
import Zeno.Gen.Html
namespace Driver.Extract
open Lean Zeno Zeno.Model.Extract

instance : Inhabited J := ⟨.null⟩

partial def toJ : Json → J
  | .null => .null
  | .bool b => .bool b
  | .num _ => .num
  | .str s => .str s
  | .arr a => .arr (a.toList.foldr (fun x acc => .cons (toJ x) acc) .nil)
  | .obj kvs => .obj (kvs.toList.foldr (fun (_, v) acc => .cons (toJ v) acc) .nil)

/-- `isLikelyJSON` -/
def likelyJSON (s : String) : Bool :=
  let cs := s.toList
  s.utf8ByteSize ≥ 5 &&
  ((cs.head? == some '{' && cs.getLast? == some '}') || (cs.head? == some '[' && cs.getLast? == some ']')) && cs.contains '"'

def sortStrs (l : List String) : List String := (l.toArray.qsort (· < ·)).toList

def jarr (l : List String) : String := "[" ++ ",".intercalate (l.map (fun s => (Json.str s).compress)) ++ "]"

def step (base : Bool) (_ : Unit) (j : Json) : Except String (Unit × String) := do
  let E := if base then Zeno.Base.Extractors.facts else Zeno.Gen.Extractors.facts
  let op ← str j "op"
  match op with
  | "ext" => pure ((), toString (hasFileExtension (← str j "s").toList))
  | "json" =>
    let doc ← j.getObjVal? "doc"
    let m := match j.getObjVal? "isURL" with | .ok v => v | .error _ => Json.mkObj []
    let o : JOracle := {
      isURL := fun s => match m.getObjVal? s with | .ok (.bool b) => b | _ => false,
      embedded := fun s => if likelyJSON s then (match Json.parse s with | .ok v => some (toJ v) | .error _ => none) else none }
    let urls := findURLs o 8 (toJ doc)
    let sp := split urls
    pure ((), s!"assets={jarr (sortStrs sp.assets.eraseDups)} outlinks={jarr (sortStrs sp.outlinks.eraseDups)}")
  | "s3page" =>
    let contents : List Obj := match j.getObjVal? "contents" with
      | .ok (.arr a) => a.toList.filterMap (fun e => match e with
          | .arr p => if p.size == 2 then (do pure { key := (← p[0]!.getStr?.toOption), size := (← p[1]!.getNat?.toOption) }) else none
          | _ => none)
      | _ => []
    let prefixes : List String := match j.getObjVal? "prefixes" with
      | .ok (.arr a) => a.toList.filterMap (fun e => e.getStr?.toOption)
      | _ => []
    let p : Page := { contents, prefixes, truncated := boolD j "truncated" false, nextToken := strD j "token" "" }
    let links := if strD j "listType" "" == "2" then s3V2 E p else s3Legacy E p
    let show1 : Link → String
      | .object k => "obj:" ++ k | .nextMarker m => "marker:" ++ m | .nextToken t => "token:" ++ t | .subfolder q => "prefix:" ++ q
    pure ((), jarr (sortStrs (links.map show1)))
  | "html" =>
    let H := if base then Zeno.Base.Html.facts else Zeno.Gen.Html.facts
    let els : List Zeno.Model.Html.El := match j.getObjVal? "els" with
      | .ok (.arr a) => a.toList.map (fun e =>
          { tag := strD e "tag" "", text := strD e "text" "",
            attrs := match e.getObjVal? "attrs" with
              | .ok (.arr kv) => kv.toList.filterMap (fun p => match p with
                  | .arr q => if q.size == 2 then (do pure ((← q[0]!.getStr?.toOption), (← q[1]!.getStr?.toOption))) else none
                  | _ => none)
              | _ => [] })
      | _ => []
    let disabled : List String := match j.getObjVal? "disableHTMLTag" with
      | .ok (.arr a) => a.toList.filterMap (fun e => e.getStr?.toOption)
      | _ => []
    let cfg : Zeno.Model.Html.Cfg := { disabledTags := disabled, captureAlternate := boolD j "captureAlternatePages" false }
    pure ((), s!"assets={jarr (Zeno.Model.Html.htmlAssets H cfg els)} outlinks={jarr (Zeno.Model.Html.htmlOutlinks cfg els)}")
  | _ => throw s!"bad op {op}"

end Driver.Extract
