import Driver.Util
import Zeno.Model.Item
import Zeno.Gen.Item
namespace Driver.Item
open Lean Zeno Zeno.Model.Item

partial def parseTree (j : Json) : Except String Tree := do
  let a ← j.getArr?
  if a.size < 5 then throw "tree node needs [id,url,status,via,[kids]]"
  let id ← a[0]!.getStr?
  let url ← a[1]!.getStr?
  let stS ← a[2]!.getStr?
  let st ← match Status.ofName? stS with | some s => pure s | none => throw s!"bad status {stS}"
  let via := match a[3]! with | .bool b => b | _ => false
  let kids ← a[4]!.getArr?
  let ks ← kids.toList.mapM parseTree
  let redirects := if a.size > 5 then (a[5]!.getNat?.toOption.getD 0) else 0
  let hops := if a.size > 6 then (a[6]!.getNat?.toOption.getD 0) else 0
  pure (.node { id, url, st, via, redirects, hops } (Forest.ofList ks))

mutual
partial def showTree : Tree → String
  | .node i k => s!"{i.id}|{i.url}|{i.st.name}[{showForest k}]"
partial def showForest : Forest → String
  | .nil => ""
  | .cons t .nil => showTree t
  | .cons t f => showTree t ++ "," ++ showForest f
end

def step (base : Bool) (t : Tree) (j : Json) : Except String (Tree × String) := do
  let F := if base then Zeno.Base.Item.facts else Zeno.Gen.Item.facts
  let op ← str j "op"
  match op with
  | "tree" =>
    let t' ← parseTree (← j.getObjVal? "t")
    pure (t', "ok")
  | "check" =>
    match t.check F none with
    | none => pure (t, "ok")
    | some (id, b) => pure (t, s!"bad:{id}:{b.name}")
  | "maxdepth" => pure (t, toString t.maxDepth)
  | "level" =>
    let n ← nat j "n"
    pure (t, ",".intercalate ((t.atLevel n).map (·.id)))
  | "depths" =>
    pure (t, ",".intercalate ((t.depths 0 0 true).map (fun (id, d, r) => s!"{id}:{d}:{r}")))
  | "dedupe" =>
    let t' := dedupe F t
    pure (t', showTree t')
  | "complete" =>
    let (t', b) := completeAndCheck F t
    pure (t', s!"{b} {showTree t'}")
  | "addchild" =>
    let from' ← match Status.ofName? (← str j "from") with | some s => pure s | none => throw "bad from"
    if !(F.addChildFrom.contains from'.name) then pure (t, "err:bad-from") else
    let c : Info := { id := ← str j "id", url := ← str j "url", st := .fresh, via := boolD j "via" false }
    let t' := t.addChild (← str j "pid") c from'
    pure (t', showTree t')
  | "removechild" =>
    let t' := t.removeChild (← str j "pid") (← str j "cid")
    pure (t', showTree t')
  | "setstatus" =>
    let st ← match Status.ofName? (← str j "st") with | some s => pure s | none => throw "bad st"
    let t' := t.setStatus (← str j "id") st
    pure (t', showTree t')
  | "dump" => pure (t, showTree t)
  | _ => throw s!"bad op {op}"

def init : Tree := .node { id := "", url := "", st := .fresh } .nil

end Driver.Item
