import Driver.Util
import Zeno.Model.Reactor
import Zeno.Gen.Reactor
namespace Driver.Reactor
open Lean Zeno Zeno.Model.Reactor

def showRes : Res → String
  | .ok => "ok" | .frozen => "frozen" | .shutdown => "shutdown" | .notinit => "notinit"
  | .notpresent => "notpresent" | .notfound => "notfound" | .blocked => "blocked" | .panic => "panic"
  | .dead => "dead" | .empty => "empty" | .item x => s!"item:{x}" | .rejected => "rejected"

def parseOp (j : Json) : Except String (Option Op) := do
  let o ← str j "op"
  match o with
  | "start" => pure (some (.start (← nat j "tokens")))
  | "insert" => pure (some (.insert (← str j "id")))
  | "feedback" => pure (some (.feedback (← str j "id")))
  | "finish" => pure (some (.finish (← str j "id")))
  | "freeze" => pure (some .freeze)
  | "stop" => pure (some .stop)
  | "recv" => pure (some .recv)
  | "state" => pure none
  | "drained" => pure none
  | _ => throw s!"bad op {o}"

def sortStrs (l : List String) : List String := (l.toArray.qsort (· < ·)).toList

/-- stateful: one history per process run; `reset` starts a new history -/
def step (base : Bool) (st : R) (j : Json) : Except String (R × String) := do
  let F := if base then Zeno.Base.Reactor.facts else Zeno.Gen.Reactor.facts
  if strD j "op" "" == "reset" then return (R.init, "reset")
  match ← parseOp j with
  | none =>
    if st.dead then pure (st, "dead") else
    if !st.started then pure (st, "notinit") else
    pure (st, s!"tokens={st.tokens} table={",".intercalate (sortStrs st.table)}")
  | some op =>
    let (st', res, late) := Model.Reactor.step F st op
    -- a woken call that parks again (wedged) has not completed: the harness cannot see it
    let late := late.filter (fun (_, r) => r != .blocked)
    let lateS := late.map (fun (y, r) => s!"{y}={showRes r}")
    let lateS := sortStrs lateS
    let out := if lateS.isEmpty then showRes res else s!"{showRes res} late:{",".intercalate lateS}"
    pure (st', out)

end Driver.Reactor
