import Lean.Data.Json
/-! Parsing glue for the line protocol (trusted: see DESIGN.md §2). Core + Lean.Data.Json only. -/
namespace Driver
open Lean

def str (j : Json) (k : String) : Except String String := do
  let v ← j.getObjVal? k
  v.getStr?

def strD (j : Json) (k : String) (d : String) : String :=
  match str j k with | .ok s => s | .error _ => d

/-- naturals travel as decimal strings (they may exceed 2^63) or JSON numbers -/
def nat (j : Json) (k : String) : Except String Nat := do
  let v ← j.getObjVal? k
  match v with
  | .str s => match s.toNat? with | some n => pure n | none => throw s!"bad nat {s}"
  | _ => v.getNat?

def natD (j : Json) (k : String) (d : Nat) : Nat :=
  match nat j k with | .ok n => n | .error _ => d

def int (j : Json) (k : String) : Except String Int := do
  let v ← j.getObjVal? k
  match v with
  | .str s => match s.toInt? with | some n => pure n | none => throw s!"bad int {s}"
  | _ => v.getInt?

def boolD (j : Json) (k : String) (d : Bool) : Bool :=
  match j.getObjVal? k with
  | .ok (.bool b) => b
  | _ => d

def arr (j : Json) (k : String) : Except String (Array Json) := do
  let v ← j.getObjVal? k
  v.getArr?

/-- rationals travel as "num/den" or "num" -/
def parseRat (s : String) : Except String Rat :=
  match s.splitOn "/" with
  | [n] => match n.toInt? with | some a => pure (a : Rat) | none => throw s!"bad rat {s}"
  | [n, d] => match n.toInt?, d.toNat? with
    | some a, some b => if b = 0 then throw "zero den" else pure ((a : Rat) / (b : Rat))
    | _, _ => throw s!"bad rat {s}"
  | _ => throw s!"bad rat {s}"

def rat (j : Json) (k : String) : Except String Rat := do
  let s ← str j k
  parseRat s

def showRat (q : Rat) : String := if q.den = 1 then toString q.num else s!"{q.num}/{q.den}"

end Driver
