import Driver.Util
import Zeno.Model.Queue
import Zeno.Gen.Queue
namespace Driver.Queue
open Lean Zeno Zeno.Model.Queue

def sortStrs (l : List String) : List String := (l.toArray.qsort (· < ·)).toList

def showRow (r : Row) : String :=
  s!"{r.id}|{r.value}|{r.via}|{r.hops}|{match r.status with | .fresh => "FRESH" | .claimed => "CLAIMED"}"

def parseUrls (j : Json) : Except String (List Row) := do
  let a ← arr j "urls"
  a.toList.mapM (fun e => do
    let x ← e.getArr?
    if x.size < 4 then throw "bad url"
    pure { id := ← x[0]!.getStr?, value := ← x[1]!.getStr?, via := ← x[2]!.getStr?, hops := (x[3]!.getNat?.toOption.getD 0) })

def step (base : Bool) (tbl : List Row) (j : Json) : Except String (List Row × String) := do
  let F := if base then Zeno.Base.Queue.facts else Zeno.Gen.Queue.facts
  let op ← str j "op"
  match op with
  | "hops" =>
    let h ← nat j "h"
    let p := hopsToPath F h
    pure (tbl, s!"path={String.mk p} back={pathToHops F p}")
  | "path" => pure (tbl, s!"hops={pathToHops F (← str j "p").toList}")
  | "lqopen" => if boolD j "new" false then pure ([], "ok") else pure (lqInit F tbl, "ok")
  | "lqabandon" => pure (tbl, "ok")
  | "lqclose" => pure ([], "ok")
  | "lqadd" =>
    match lqAdd F tbl (← parseUrls j) with
    | some t => pure (t, "ok")
    | none => pure (tbl, "err")
  | "lqget" =>
    let (t, got) := lqGet tbl (← nat j "limit")
    pure (t, "got " ++ ",".intercalate (got.map (fun r => s!"{r.id}|{r.value}|{r.via}|{r.hops}")))
  | "lqdelete" =>
    let ids ← (← arr j "ids").toList.mapM (fun e => e.getStr?)
    pure (lqDelete tbl ids, "ok")
  | "lqreset" => pure (lqReset tbl (← str j "id"), "ok")
  | "lqrows" => pure (tbl, "rows " ++ ",".intercalate (sortStrs (tbl.map showRow)))
  | _ => throw s!"bad op {op}"

end Driver.Queue
