#!/bin/sh
# Build the framework from files on disk only (offline). Run once after a fresh restore.
set -e
cd "$(dirname "$0")"
mkdir -p build evidence replays
python3 - <<'PY'
import sys
sys.path.insert(0, ".")
from vlib import core
core.gen_facts()
rc, out, err = core.lake(["build", "Zeno", "zdriver"])
sys.stdout.write(out[-3000:]); sys.stderr.write(err[-3000:])
if rc != 0:
    # a property module that does not build on this tree is reported by its own check, not by setup
    rc2, out2, err2 = core.lake(["build", "zdriver"])
    if rc2 != 0:
        sys.exit("zdriver does not build")
ok, msg = core.build_harness()
if not ok:
    sys.stderr.write(msg)
    sys.stderr.write("\nharness does not build against this tree (reported by the checks)\n")
PY
echo setup done
